import Fpdec.Lemmas.Rounding
import Fpdec.Lemmas.WideSpecial
import Mathlib.Tactic.Ring

/-!
# C16 — the wide (256-bit) intermediates

Target theorems (names and statements are fixed; add whatever helper lemmas you need above them).
`u128MulU128`, `u256IdivU64`, `corrCond`, `corrLoop`, `u256IdivU128Special`, `u256IdivU128`, `i128ShiftedDivModFloor`,
`i256DivModFloor` are defined in Fpdec/Model/Core.lean and mirror fpdec-core/src/lib.rs of /repo function by function.
Every `plainU128 prof …` / `plainU8 prof …` / `debugAssert prof …` inside them must be shown never to overflow / fail
(that is why the result is `.ok …` for EVERY profile `prof`).
-/

namespace Fpdec
open Fpdec.Model

theorem u128Hi_eq (x : Nat) : u128Hi x = x / 18446744073709551616 := by
  unfold u128Hi; rw [Nat.shiftRight_eq_div_pow]

theorem u128Lo_eq (x : Nat) : u128Lo x = x % 18446744073709551616 := by
  unfold u128Lo; exact Nat.and_two_pow_sub_one_eq_mod x 64

theorem shl64_eq (x : Nat) : x <<< 64 = x * 18446744073709551616 := by
  rw [Nat.shiftLeft_eq]

theorem plainU128_eq (prof : Profile) (z : Int) (n : Nat) (h : z = (n : Int)) (hn : n < U128_MOD) :
    plainU128 prof z = .ok n := by
  unfold plainU128 U128_MOD at *
  subst h
  have : (0 : Int) ≤ (n : Int) ∧ (n : Int) < 340282366920938463463374607431768211456 := by omega
  simp [this]

theorem plainU128_nat (prof : Profile) (n : Nat) (hn : n < U128_MOD) : plainU128 prof (n : Int) = .ok n :=
  plainU128_eq prof _ n rfl hn

/-- `u128_mul_u128`: exact 256-bit product, no intermediate overflow -/
theorem u128MulU128_spec (prof : Profile) (x y : Nat) (hx : x < U128_MOD) (hy : y < U128_MOD) :
    ∃ rh rl, u128MulU128 prof x y = .ok (rh, rl) ∧ rh * U128_MOD + rl = x * y ∧ rh < U128_MOD ∧ rl < U128_MOD := by
  unfold u128MulU128
  simp only [u128Hi_eq, u128Lo_eq, shl64_eq]
  have hxd := Nat.div_add_mod x 18446744073709551616
  have hyd := Nat.div_add_mod y 18446744073709551616
  have hxl := Nat.mod_lt x (show 0 < 18446744073709551616 by decide)
  have hyl := Nat.mod_lt y (show 0 < 18446744073709551616 by decide)
  have hxh : x / 18446744073709551616 < 18446744073709551616 := by unfold U128_MOD at hx; omega
  have hyh : y / 18446744073709551616 < 18446744073709551616 := by unfold U128_MOD at hy; omega
  generalize x / 18446744073709551616 = xh at *
  generalize x % 18446744073709551616 = xl at *
  generalize y / 18446744073709551616 = yh at *
  generalize y % 18446744073709551616 = yl at *
  have ha : xl * yl ≤ 18446744073709551615 * 18446744073709551615 := Nat.mul_le_mul (by omega) (by omega)
  have hb : xl * yh ≤ 18446744073709551615 * 18446744073709551615 := Nat.mul_le_mul (by omega) (by omega)
  have hc : xh * yl ≤ 18446744073709551615 * 18446744073709551615 := Nat.mul_le_mul (by omega) (by omega)
  have hd : xh * yh ≤ 18446744073709551615 * 18446744073709551615 := Nat.mul_le_mul (by omega) (by omega)
  have hprod : x * y = xh * yh * (18446744073709551616 * 18446744073709551616) + (xl * yh + xh * yl) * 18446744073709551616 + xl * yl := by
    rw [← hxd, ← hyd]; ring
  simp only [← Int.natCast_mul, ← Int.natCast_add, wrapU128]
  generalize xl * yl = a at *
  generalize xl * yh = b at *
  generalize xh * yl = c at *
  generalize xh * yh = d at *
  rw [plainU128_nat prof a (by unfold U128_MOD; omega), Outcome.bind_ok]
  rw [plainU128_nat prof b (by unfold U128_MOD; omega), Outcome.bind_ok]
  rw [plainU128_nat prof _ (by unfold U128_MOD; omega), Outcome.bind_ok]
  rw [plainU128_nat prof c (by unfold U128_MOD; omega), Outcome.bind_ok]
  rw [plainU128_nat prof _ (by unfold U128_MOD; omega), Outcome.bind_ok]
  rw [plainU128_nat prof _ (by unfold U128_MOD; omega), Outcome.bind_ok]
  rw [plainU128_nat prof d (by unfold U128_MOD; omega), Outcome.bind_ok]
  rw [plainU128_nat prof _ (by unfold U128_MOD; omega), Outcome.bind_ok]
  rw [plainU128_nat prof _ (by unfold U128_MOD; omega), Outcome.bind_ok, Outcome.pure_eq]
  refine ⟨_, _, rfl, ?_, ?_, ?_⟩ <;> unfold U128_MOD <;> omega

theorem hiLo (a b : Nat) (ha : a < 18446744073709551616) (hb : b < 18446744073709551616) :
    a * 18446744073709551616 % 340282366920938463463374607431768211456 = a * 18446744073709551616 ∧
    a * 18446744073709551616 % 340282366920938463463374607431768211456 + b < U128_MOD := by
  unfold U128_MOD; omega

/-- one step of the schoolbook division by a single base-2^64 digit -/
theorem ldStep (y r d : Nat) (hy0 : 0 < y) (hy : y < 18446744073709551616) (hr : r < y) (hd : d < 18446744073709551616) :
    ∃ q r', (r * 18446744073709551616 % 340282366920938463463374607431768211456 + d) / y = q ∧
      (r * 18446744073709551616 % 340282366920938463463374607431768211456 + d) % y = r' ∧
      q < 18446744073709551616 ∧ r' < y ∧ y * q + r' = r * 18446744073709551616 + d ∧
      r * 18446744073709551616 % 340282366920938463463374607431768211456 + d < 340282366920938463463374607431768211456 := by
  have e : r * 18446744073709551616 % 340282366920938463463374607431768211456 = r * 18446744073709551616 := by omega
  rw [e]
  refine ⟨_, _, rfl, rfl, ?_, Nat.mod_lt _ hy0, Nat.div_add_mod _ _, by omega⟩
  rw [Nat.div_lt_iff_lt_mul hy0]
  omega

/-- `u256_idiv_u64`: 256 by 64 bit long division -/
theorem u256IdivU64_spec (prof : Profile) (xh xl y : Nat) (hxh : xh < U128_MOD) (hxl : xl < U128_MOD)
    (hy0 : 0 < y) (hy : y < U64_MOD) :
    ∃ qh ql r, u256IdivU64 prof xh xl y = .ok (qh, ql, r) ∧
      qh * U128_MOD + ql = (xh * U128_MOD + xl) / y ∧ r = (xh * U128_MOD + xl) % y ∧ qh < U128_MOD ∧ ql < U128_MOD := by
  unfold u256IdivU64
  by_cases h1 : y = 1
  · subst h1
    refine ⟨xh, xl, 0, by simp, by simp, (Nat.mod_one _).symm, hxh, hxl⟩
  · have hy0' : y ≠ 0 := by omega
    simp only [h1, hy0', if_false, u128Hi_eq, u128Lo_eq, shl64_eq, wrapU128, ← Int.natCast_ediv, ← Int.natCast_add]
    unfold U128_MOD at hxh hxl
    unfold U64_MOD at hy
    have B0 : 0 < 18446744073709551616 := by decide
    have e3 := Nat.div_add_mod xh 18446744073709551616
    have l3 := Nat.mod_lt xh B0
    have e1 := Nat.div_add_mod xl 18446744073709551616
    have l1 := Nat.mod_lt xl B0
    have hd3 : xh / 18446744073709551616 < 18446744073709551616 := by omega
    have hd1 : xl / 18446744073709551616 < 18446744073709551616 := by omega
    generalize xh / 18446744073709551616 = d3 at *
    generalize xh % 18446744073709551616 = d2 at *
    generalize xl / 18446744073709551616 = d1 at *
    generalize xl % 18446744073709551616 = d0 at *
    -- digit 3
    have m3 := Nat.div_add_mod d3 y
    have hr3 := Nat.mod_lt d3 hy0
    have hq3 : d3 / y ≤ d3 := Nat.div_le_self _ _
    generalize d3 / y = q3 at *
    generalize d3 % y = r3 at *
    obtain ⟨q2, r2, eq2, er2, hq2, hr2, m2, b2⟩ := ldStep y r3 d2 hy0 hy hr3 l3
    rw [plainU128_nat prof _ (by unfold U128_MOD; omega), Outcome.bind_ok, eq2, er2]
    clear eq2 er2
    rw [plainU128_nat prof _ (hiLo q3 q2 (by omega) hq2).2, Outcome.bind_ok]
    obtain ⟨q1, r1, eq1, er1, hq1, hr1, m1, b1⟩ := ldStep y r2 d1 hy0 hy hr2 hd1
    rw [plainU128_nat prof _ (by unfold U128_MOD; omega), Outcome.bind_ok, eq1, er1]
    clear eq1 er1
    obtain ⟨q0, r0, eq0, er0, hq0, hr0, m0, b0⟩ := ldStep y r1 d0 hy0 hy hr1 l1
    rw [plainU128_nat prof _ (by unfold U128_MOD; omega), Outcome.bind_ok, eq0, er0]
    clear eq0 er0
    rw [plainU128_nat prof _ (hiLo q1 q0 hq1 hq0).2, Outcome.bind_ok, Outcome.pure_eq]
    have hq3' : q3 < 18446744073709551616 := by omega
    have eh := (hiLo q3 q2 hq3' hq2).1
    have el := (hiLo q1 q0 hq1 hq0).1
    rw [eh, el]
    have key : r0 + y * ((q3 * 18446744073709551616 + q2) * 340282366920938463463374607431768211456 +
        (q1 * 18446744073709551616 + q0)) = xh * 340282366920938463463374607431768211456 + xl := by
      have : y * ((q3 * 18446744073709551616 + q2) * 340282366920938463463374607431768211456 +
        (q1 * 18446744073709551616 + q0)) = (y * q3) * (18446744073709551616 * 340282366920938463463374607431768211456)
          + (y * q2) * 340282366920938463463374607431768211456 + (y * q1) * 18446744073709551616 + y * q0 := by ring
      rw [this]
      generalize y * q3 = p3 at *
      generalize y * q2 = p2 at *
      generalize y * q1 = p1 at *
      generalize y * q0 = p0 at *
      omega
    have := (Nat.div_mod_unique hy0).mpr ⟨key, hr0⟩
    refine ⟨_, _, _, rfl, ?_, ?_, ?_, ?_⟩
    · unfold U128_MOD; exact this.1.symm
    · unfold U128_MOD; exact this.2.symm
    · unfold U128_MOD; omega
    · unfold U128_MOD; omega

/-- `u256_idiv_u128` -/
theorem u256IdivU128_spec (prof : Profile) (xh xl y : Nat) (hxh : xh < U128_MOD) (hxl : xl < U128_MOD)
    (hy0 : 0 < y) (hy : y < U128_MOD) :
    ∃ qh ql r, u256IdivU128 prof xh xl y = .ok (qh, ql, r) ∧
      qh * U128_MOD + ql = (xh * U128_MOD + xl) / y ∧ r = (xh * U128_MOD + xl) % y ∧ qh < U128_MOD ∧ ql < U128_MOD := by
  unfold u256IdivU128
  simp only [u128Hi_eq, u128Lo_eq]
  by_cases hhi : y / 18446744073709551616 = 0
  · have hylt : y < 18446744073709551616 := by omega
    have e : y % 18446744073709551616 % U64_MOD = y := by unfold U64_MOD; omega
    simp only [hhi, if_true, e]
    exact u256IdivU64_spec prof xh xl y hxh hxl hy0 (by unfold U64_MOD; omega)
  · have hyge : U64_MOD ≤ y := by unfold U64_MOD; omega
    simp only [hhi, if_false]
    by_cases hlt : xh < y
    · simp only [hlt, if_true]
      obtain ⟨ql, r, h, hql, hr, hqlt⟩ := u256IdivU128Special_spec prof xh xl y hyge hy hlt hxl
      exact ⟨0, ql, r, h, by omega, hr, by unfold U128_MOD; omega, hqlt⟩
    · simp only [hlt, if_false]
      have htl := Nat.mod_lt xh hy0
      obtain ⟨ql, r, h, hql, hr, hqlt⟩ := u256IdivU128Special_spec prof (xh % y) xl y hyge hy htl hxl
      rw [h, Outcome.bind_ok, Outcome.pure_eq]
      have hm := Nat.div_add_mod xh y
      have hm2 := Nat.div_add_mod (xh % y * U128_MOD + xl) y
      have hr2 := Nat.mod_lt (xh % y * U128_MOD + xl) hy0
      rw [← hql, ← hr] at hm2
      rw [← hr] at hr2
      have hle : xh / y ≤ xh := Nat.div_le_self _ _
      have key : r + y * (xh / y * U128_MOD + ql) = xh * U128_MOD + xl := by
        have : y * (xh / y * U128_MOD + ql) = (y * (xh / y)) * U128_MOD + y * ql := by ring
        rw [this]
        have e2 : xh * U128_MOD = (y * (xh / y)) * U128_MOD + xh % y * U128_MOD := by
          rw [← Nat.add_mul, hm]
        omega
      have := (Nat.div_mod_unique hy0).mpr ⟨key, hr2⟩
      exact ⟨_, _, _, rfl, this.1.symm, this.2.symm, by omega, hqlt⟩

/-- `x as i128` for an in-range value -/
theorem cast_i128_id {x : Int} (h0 : I128_MIN ≤ x) (h1 : x ≤ I128_MAX) : IntTy.i128.cast x = x := by
  unfold IntTy.cast IntTy.wrap IntTy.i128
  simp only [if_true]
  rw [show (128 - 1 : Nat) = 127 from rfl, pow2_128, pow2_127]
  unfold I128_MIN at h0
  unfold I128_MAX at h1
  omega

/-- floor division of `±P` by `y > 0` from the truncated quotient and remainder of `P` -/
theorem floorOfAbs (P : Nat) (y : Int) (hy0 : 0 < y) :
    ((P : Int) / y = ((P / y.natAbs : Nat) : Int) ∧ (P : Int) % y = ((P % y.natAbs : Nat) : Int)) ∧
    (P % y.natAbs = 0 → (-(P : Int)) / y = -((P / y.natAbs : Nat) : Int) ∧ (-(P : Int)) % y = 0) ∧
    (P % y.natAbs ≠ 0 → (-(P : Int)) / y = -((P / y.natAbs : Nat) : Int) - 1 ∧
        (-(P : Int)) % y = y - ((P % y.natAbs : Nat) : Int)) := by
  have hab : (y.natAbs : Int) = y := Int.natAbs_of_nonneg (Int.le_of_lt hy0)
  have hn0 : 0 < y.natAbs := by omega
  have hm := Nat.div_add_mod P y.natAbs
  have hl := Nat.mod_lt P hn0
  generalize P / y.natAbs = q at *
  generalize P % y.natAbs = r at *
  have hm' : y * (q : Int) + (r : Int) = (P : Int) := by
    rw [← hab, ← hm]; push_cast; rfl
  refine ⟨?_, ?_, ?_⟩
  · exact (Int.ediv_emod_unique hy0).mpr ⟨by omega, by omega, by omega⟩
  · intro h0
    exact (Int.ediv_emod_unique hy0).mpr ⟨by rw [Int.mul_neg]; omega, by omega, by omega⟩
  · intro h0
    exact (Int.ediv_emod_unique hy0).mpr ⟨by rw [Int.mul_sub, Int.mul_neg, Int.mul_one]; omega, by omega, by omega⟩

theorem debugAssert_true (prof : Profile) : debugAssert prof true = .ok () := by
  unfold debugAssert; simp

/-- the common sign-fixing tail of `i256_div_mod_floor` and `i128_shifted_div_mod_floor` (divisor `y > 0`) -/
theorem signedTail (prof : Profile) (P : Nat) (N y : Int) (neg : Prop) [Decidable neg]
    (hy : 0 < y ∧ y ≤ I128_MAX) (qh ql r : Nat)
    (hQ : qh * U128_MOD + ql = P / y.natAbs) (hR : r = P % y.natAbs) (hql : ql < U128_MOD)
    (hN : N = if neg then -(P : Int) else (P : Int)) :
    (if qh ≠ 0 ∨ (ql : Int) > I128_MAX then (pure none : Outcome (Option (Int × Int)))
      else
        if neg then
          if IntTy.i128.cast (r : Int) = 0 then do
            let q ← negI128 prof (ql : Int)
            pure (some (q, IntTy.i128.cast (r : Int)))
          else do
            let q ← negI128 prof (ql : Int)
            let q ← plainI128 prof (q - 1)
            let r ← plainI128 prof (y - IntTy.i128.cast (r : Int))
            pure (some (q, r))
        else pure (some ((ql : Int), IntTy.i128.cast (r : Int)))) =
      Outcome.ok (if P / y.natAbs ≤ I128_MAX.toNat then some (N / y, N % y) else none) := by
  obtain ⟨hy0, hyM⟩ := hy
  obtain ⟨⟨fp1, fp2⟩, fn0, fn1⟩ := floorOfAbs P y hy0
  have hyn0 : 0 < y.natAbs := by omega
  have hrl := Nat.mod_lt P hyn0
  rw [← hR] at fp2 fn0 fn1 hrl
  have hab : (y.natAbs : Int) = y := Int.natAbs_of_nonneg (Int.le_of_lt hy0)
  unfold I128_MAX at hyM
  have hcast : IntTy.i128.cast (r : Int) = (r : Int) :=
    cast_i128_id (by unfold I128_MIN; omega) (by unfold I128_MAX; omega)
  rw [hcast]
  generalize P / y.natAbs = Q at *
  have hMAX : I128_MAX.toNat = 170141183460469231731687303715884105727 := by decide
  rw [hMAX]
  by_cases hc : qh ≠ 0 ∨ (ql : Int) > I128_MAX
  · have : ¬ Q ≤ 170141183460469231731687303715884105727 := by
      unfold I128_MAX at hc; unfold U128_MOD at hQ hql; omega
    rw [if_pos hc, if_neg this]; rfl
  · have hQle : Q ≤ 170141183460469231731687303715884105727 := by
      unfold I128_MAX at hc; unfold U128_MOD at hQ hql; omega
    have hqQ : ql = Q := by unfold I128_MAX at hc; unfold U128_MOD at hQ hql; omega
    rw [if_neg hc, if_pos hQle]
    subst hqQ
    by_cases hneg : neg
    · rw [if_pos hneg] at hN ⊢
      subst hN
      have f1 : fitsI128 (-(ql : Int)) = true := by rw [fitsI128_iff]; unfold I128_MIN I128_MAX; omega
      have f2 : fitsI128 (-(ql : Int) - 1) = true := by rw [fitsI128_iff]; unfold I128_MIN I128_MAX; omega
      have f3 : fitsI128 (y - (r : Int)) = true := by rw [fitsI128_iff]; unfold I128_MIN I128_MAX; omega
      by_cases hr0 : (r : Int) = 0
      · have hr0' : r = 0 := by omega
        obtain ⟨a, b⟩ := fn0 hr0'
        rw [if_pos hr0, negI128, plainI128_ok prof f1, Outcome.bind_ok, Outcome.pure_eq, a, b, hr0]
      · have hr0' : r ≠ 0 := by omega
        obtain ⟨a, b⟩ := fn1 hr0'
        rw [if_neg hr0, negI128, plainI128_ok prof f1, Outcome.bind_ok, plainI128_ok prof f2, Outcome.bind_ok,
          plainI128_ok prof f3, Outcome.bind_ok, Outcome.pure_eq, a, b]
    · rw [if_neg hneg] at hN ⊢
      subst hN
      rw [fp1, fp2]; rfl

/-- the sign-fixing tail of `i128_shifted_div_mod_floor` for a negative divisor (after the D13 repair this branch is live): with
    `M = -N` and `Y = -y > 0` the result is the floor quotient `M / Y = N / y` and the remainder `-(M % Y)`, which has the sign of `y` -/
theorem signedTailNeg (prof : Profile) (P : Nat) (N y : Int) (neg : Prop) [Decidable neg]
    (hy : I128_MIN ≤ y ∧ y < 0) (qh ql r : Nat)
    (hQ : qh * U128_MOD + ql = P / y.natAbs) (hR : r = P % y.natAbs) (hql : ql < U128_MOD)
    (hN : N = if neg then -(P : Int) else (P : Int)) :
    (if qh ≠ 0 ∨ (ql : Int) > I128_MAX then (pure none : Outcome (Option (Int × Int)))
      else
        if neg then do
          let r ← negI128 prof (IntTy.i128.cast (r : Int))
          pure (some ((ql : Int), r))
        else
          if IntTy.i128.cast (r : Int) = 0 then do
            let q ← negI128 prof (ql : Int)
            pure (some (q, IntTy.i128.cast (r : Int)))
          else do
            let q ← negI128 prof (ql : Int)
            let q ← plainI128 prof (q - 1)
            let r ← plainI128 prof (IntTy.i128.cast (r : Int) + y)
            pure (some (q, r))) =
      Outcome.ok (if P / y.natAbs ≤ I128_MAX.toNat then some ((-N) / (-y), -((-N) % (-y))) else none) := by
  obtain ⟨hyM, hy0⟩ := hy
  have hY0 : 0 < -y := by omega
  obtain ⟨⟨fp1, fp2⟩, fn0, fn1⟩ := floorOfAbs P (-y) hY0
  have hnab : (-y).natAbs = y.natAbs := Int.natAbs_neg y
  rw [hnab] at fp1 fp2 fn0 fn1
  have hyn0 : 0 < y.natAbs := by omega
  have hrl := Nat.mod_lt P hyn0
  rw [← hR] at fp2 fn0 fn1 hrl
  unfold I128_MIN at hyM
  have hcast : IntTy.i128.cast (r : Int) = (r : Int) :=
    cast_i128_id (by unfold I128_MIN; omega) (by unfold I128_MAX; omega)
  rw [hcast]
  generalize P / y.natAbs = Q at *
  have hMAX : I128_MAX.toNat = 170141183460469231731687303715884105727 := by decide
  rw [hMAX]
  by_cases hc : qh ≠ 0 ∨ (ql : Int) > I128_MAX
  · have : ¬ Q ≤ 170141183460469231731687303715884105727 := by
      unfold I128_MAX at hc; unfold U128_MOD at hQ hql; omega
    rw [if_pos hc, if_neg this]; rfl
  · have hQle : Q ≤ 170141183460469231731687303715884105727 := by
      unfold I128_MAX at hc; unfold U128_MOD at hQ hql; omega
    have hqQ : ql = Q := by unfold I128_MAX at hc; unfold U128_MOD at hQ hql; omega
    rw [if_neg hc, if_pos hQle]
    subst hqQ
    by_cases hneg : neg
    · rw [if_pos hneg] at hN ⊢
      subst hN
      have f1 : fitsI128 (-(r : Int)) = true := by rw [fitsI128_iff]; unfold I128_MIN I128_MAX; omega
      rw [negI128, plainI128_ok prof f1, Outcome.bind_ok, Outcome.pure_eq, Int.neg_neg, fp1, fp2]
    · rw [if_neg hneg] at hN ⊢
      subst hN
      have f1 : fitsI128 (-(ql : Int)) = true := by rw [fitsI128_iff]; unfold I128_MIN I128_MAX; omega
      have f2 : fitsI128 (-(ql : Int) - 1) = true := by rw [fitsI128_iff]; unfold I128_MIN I128_MAX; omega
      have f3 : fitsI128 ((r : Int) + y) = true := by rw [fitsI128_iff]; unfold I128_MIN I128_MAX; omega
      by_cases hr0 : (r : Int) = 0
      · have hr0' : r = 0 := by omega
        obtain ⟨a, b⟩ := fn0 hr0'
        rw [if_pos hr0, negI128, plainI128_ok prof f1, Outcome.bind_ok, Outcome.pure_eq, a, b, hr0]
        rfl
      · have hr0' : r ≠ 0 := by omega
        obtain ⟨a, b⟩ := fn1 hr0'
        rw [if_neg hr0, negI128, plainI128_ok prof f1, Outcome.bind_ok, plainI128_ok prof f2, Outcome.bind_ok,
          plainI128_ok prof f3, Outcome.bind_ok, Outcome.pure_eq, a, b]
        have e : (r : Int) + y = -(-y - (r : Int)) := by omega
        rw [e]

/-- `i256_div_mod_floor(x1, x2, y)` for `y > 0`: floor quotient and remainder of the exact product,
    `None` exactly when the truncated quotient magnitude exceeds `i128::MAX` -/
theorem i256DivModFloor_spec (prof : Profile) (x1 x2 y : Int)
    (h1 : I128_MIN < x1 ∧ x1 ≤ I128_MAX) (h2 : I128_MIN < x2 ∧ x2 ≤ I128_MAX) (hy : 0 < y ∧ y ≤ I128_MAX) :
    i256DivModFloor prof x1 x2 y =
      .ok (if ((x1 * x2).natAbs / y.natAbs : Nat) ≤ I128_MAX.toNat then some ((x1 * x2) / y, (x1 * x2) % y) else none) := by
  unfold I128_MIN I128_MAX at h1 h2
  have hyM := hy.2
  unfold I128_MAX at hyM
  have hx1 : x1.natAbs < U128_MOD := by unfold U128_MOD; omega
  have hx2 : x2.natAbs < U128_MOD := by unfold U128_MOD; omega
  have hyn0 : 0 < y.natAbs := by omega
  have hyn : y.natAbs < U128_MOD := by unfold U128_MOD; omega
  obtain ⟨rh, rl, hmul, hP, hrh, hrl⟩ := u128MulU128_spec prof x1.natAbs x2.natAbs hx1 hx2
  obtain ⟨qh, ql, r, hdiv, hQ, hR, hqh, hql⟩ := u256IdivU128_spec prof rh rl y.natAbs hrh hrl hyn0 hyn
  unfold i256DivModFloor
  have hdec : decide (y > 0) = true := by simp [hy.1]
  rw [hdec, debugAssert_true, Outcome.bind_ok, hmul, Outcome.bind_ok]
  dsimp only
  rw [hdiv, Outcome.bind_ok]
  dsimp only
  rw [hP] at hQ hR
  rw [Int.natAbs_mul]
  refine signedTail prof (x1.natAbs * x2.natAbs) (x1 * x2) y _ hy qh ql r hQ hR hql ?_
  have e1 : x1 * x2 = if (decide (x1 < 0) != decide (x2 < 0)) = true then -((x1.natAbs : Int) * (x2.natAbs : Int))
      else (x1.natAbs : Int) * (x2.natAbs : Int) := by
    have n1 : (x1 < 0 ∧ (x1.natAbs : Int) = -x1) ∨ (¬ x1 < 0 ∧ (x1.natAbs : Int) = x1) := by omega
    have n2 : (x2 < 0 ∧ (x2.natAbs : Int) = -x2) ∨ (¬ x2 < 0 ∧ (x2.natAbs : Int) = x2) := by omega
    rcases n1 with ⟨a1, n1⟩ | ⟨a1, n1⟩ <;> rcases n2 with ⟨a2, n2⟩ | ⟨a2, n2⟩ <;> rw [n1, n2] <;> simp [a1, a2]
  rw [e1]; push_cast; rfl

/-- `i128_shifted_div_mod_floor(x, p, y)` for `y > 0`, `p ≤ 38` -/
theorem i128ShiftedDivModFloor_spec (prof : Profile) (x : Int) (p : Nat) (y : Int)
    (h1 : I128_MIN ≤ x ∧ x ≤ I128_MAX) (hp : p ≤ 38) (hy : 0 < y ∧ y ≤ I128_MAX) :
    i128ShiftedDivModFloor prof x p y =
      .ok (if ((x * 10 ^ p).natAbs / y.natAbs : Nat) ≤ I128_MAX.toNat then some ((x * 10 ^ p) / y, (x * 10 ^ p) % y) else none) := by
  unfold I128_MIN I128_MAX at h1
  have hyM := hy.2
  unfold I128_MAX at hyM
  have hpow : (10 : Nat) ^ p ≤ 10 ^ 38 := Nat.pow_le_pow_right (by decide) hp
  have hpowI : ((10 : Int) ^ p) = (((10 : Nat) ^ p : Nat) : Int) := by push_cast; rfl
  have hcast : (IntTy.u128.cast ((10 : Int) ^ p)).toNat = 10 ^ p := by
    rw [hpowI, cast_u128_nonneg (Int.natCast_nonneg _)
      (by unfold I128_MAX; generalize (10 : Nat) ^ p = T at hpow; omega)]; rfl
  have hx1 : x.natAbs < U128_MOD := by unfold U128_MOD; omega
  have hx2 : (10 : Nat) ^ p < U128_MOD := by unfold U128_MOD; omega
  have hyn0 : 0 < y.natAbs := by omega
  have hyn : y.natAbs < U128_MOD := by unfold U128_MOD; omega
  obtain ⟨rh, rl, hmul, hP, hrh, hrl⟩ := u128MulU128_spec prof x.natAbs (10 ^ p) hx1 hx2
  obtain ⟨qh, ql, r, hdiv, hQ, hR, hqh, hql⟩ := u256IdivU128_spec prof rh rl y.natAbs hrh hrl hyn0 hyn
  unfold i128ShiftedDivModFloor
  rw [tenPow_ok p hp, Outcome.bind_ok, hcast, hmul, Outcome.bind_ok]
  dsimp only
  rw [hdiv, Outcome.bind_ok]
  dsimp only
  rw [hP] at hQ hR
  have hny : ¬ y < 0 := by omega
  simp only [hny, if_false]
  have hab : (x * 10 ^ p).natAbs = x.natAbs * 10 ^ p := by
    rw [Int.natAbs_mul, Int.natAbs_pow]; rfl
  rw [hab]
  refine signedTail prof (x.natAbs * 10 ^ p) (x * 10 ^ p) y _ hy qh ql r hQ hR hql ?_
  have n1 : (x < 0 ∧ (x.natAbs : Int) = -x) ∨ (¬ x < 0 ∧ (x.natAbs : Int) = x) := by omega
  simp only [Int.natCast_mul, Int.natCast_pow, Nat.cast_ofNat]
  rcases n1 with ⟨a1, n1⟩ | ⟨a1, n1⟩
  · rw [if_pos a1, n1, Int.neg_mul, Int.neg_neg]
  · rw [if_neg a1, n1]

/-- `i128_shifted_div_mod_floor(x, p, y)` for `y < 0` (the branch the D13 repair made live): the floor quotient of
    `x·10^p / y = (-(x·10^p)) / (-y)` and a remainder with the sign of `y` -/
theorem i128ShiftedDivModFloor_spec_neg (prof : Profile) (x : Int) (p : Nat) (y : Int)
    (h1 : I128_MIN ≤ x ∧ x ≤ I128_MAX) (hp : p ≤ 38) (hy : I128_MIN ≤ y ∧ y < 0) :
    i128ShiftedDivModFloor prof x p y =
      .ok (if ((x * 10 ^ p).natAbs / y.natAbs : Nat) ≤ I128_MAX.toNat
        then some ((-(x * 10 ^ p)) / (-y), -((-(x * 10 ^ p)) % (-y))) else none) := by
  unfold I128_MIN I128_MAX at h1
  have hyM := hy.1
  unfold I128_MIN at hyM
  have hpow : (10 : Nat) ^ p ≤ 10 ^ 38 := Nat.pow_le_pow_right (by decide) hp
  have hpowI : ((10 : Int) ^ p) = (((10 : Nat) ^ p : Nat) : Int) := by push_cast; rfl
  have hcast : (IntTy.u128.cast ((10 : Int) ^ p)).toNat = 10 ^ p := by
    rw [hpowI, cast_u128_nonneg (Int.natCast_nonneg _)
      (by unfold I128_MAX; generalize (10 : Nat) ^ p = T at hpow; omega)]; rfl
  have hx1 : x.natAbs < U128_MOD := by unfold U128_MOD; omega
  have hx2 : (10 : Nat) ^ p < U128_MOD := by unfold U128_MOD; omega
  have hyn0 : 0 < y.natAbs := by omega
  have hyn : y.natAbs < U128_MOD := by unfold U128_MOD; omega
  obtain ⟨rh, rl, hmul, hP, hrh, hrl⟩ := u128MulU128_spec prof x.natAbs (10 ^ p) hx1 hx2
  obtain ⟨qh, ql, r, hdiv, hQ, hR, hqh, hql⟩ := u256IdivU128_spec prof rh rl y.natAbs hrh hrl hyn0 hyn
  unfold i128ShiftedDivModFloor
  rw [tenPow_ok p hp, Outcome.bind_ok, hcast, hmul, Outcome.bind_ok]
  dsimp only
  rw [hdiv, Outcome.bind_ok]
  dsimp only
  rw [hP] at hQ hR
  have hny : y < 0 := hy.2
  simp only [hny, if_true]
  have hab : (x * 10 ^ p).natAbs = x.natAbs * 10 ^ p := by
    rw [Int.natAbs_mul, Int.natAbs_pow]; rfl
  rw [hab]
  refine signedTailNeg prof (x.natAbs * 10 ^ p) (x * 10 ^ p) y _ hy qh ql r hQ hR hql ?_
  have n1 : (x < 0 ∧ (x.natAbs : Int) = -x) ∨ (¬ x < 0 ∧ (x.natAbs : Int) = x) := by omega
  simp only [Int.natCast_mul, Int.natCast_pow, Nat.cast_ofNat]
  rcases n1 with ⟨a1, n1⟩ | ⟨a1, n1⟩
  · rw [if_pos a1, n1, Int.neg_mul, Int.neg_neg]
  · rw [if_neg a1, n1]

end Fpdec
