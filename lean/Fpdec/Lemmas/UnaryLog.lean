import Fpdec.Lemmas.LogTable
import Fpdec.Spec.Arith

/-!
# The int_log10 copy of fpdec-core: `log10U32/U64/U128` compute `⌊log10 v⌋`; `Spec.ilog10` characterised
-/

namespace Fpdec
open Fpdec.Model

/-- `k = ⌊log10 v⌋` -/
def IsLog10 (v k : Nat) : Prop := 10 ^ k ≤ v ∧ v < 10 ^ (k + 1)

theorem IsLog10.unique {v j k : Nat} (hj : IsLog10 v j) (hk : IsLog10 v k) : j = k := by
  unfold IsLog10 at *
  rcases Nat.lt_trichotomy j k with h | h | h
  · have : 10 ^ (j + 1) ≤ 10 ^ k := Nat.pow_le_pow_right (by decide) h
    omega
  · exact h
  · have : 10 ^ (k + 1) ≤ 10 ^ j := Nat.pow_le_pow_right (by decide) h
    omega

/-- digits shifted out by a division by `10^m` -/
theorem IsLog10.shift {v m k : Nat} (h : IsLog10 (v / 10 ^ m) k) : IsLog10 v (m + k) := by
  unfold IsLog10 at *
  have hp : 0 < 10 ^ m := Nat.pow_pos (by decide)
  obtain ⟨h1, h2⟩ := h
  constructor
  · rw [Nat.pow_add, Nat.mul_comm]
    exact (Nat.le_div_iff_mul_le hp).mp h1
  · have : 10 ^ (m + k + 1) = 10 ^ (k + 1) * 10 ^ m := by
      rw [← Nat.pow_add]; congr 1; omega
    rw [this]
    exact (Nat.div_lt_iff_lt_mul hp).mp h2

theorem IsLog10.lt_of_lt {v k n : Nat} (h : IsLog10 v k) (hv : v < 10 ^ n) : k < n := by
  unfold IsLog10 at h
  rcases Nat.lt_or_ge k n with hk | hk
  · exact hk
  · have : 10 ^ n ≤ 10 ^ k := Nat.pow_le_pow_right (by decide) hk
    omega

/-! ### the spec's digit counter -/

theorem ilog10_isLog : ∀ (fuel n : Nat), 0 < n → n < 10 ^ fuel → IsLog10 n (Spec.ilog10 fuel n)
  | 0, n, h0, h => by simp at h; omega
  | fuel + 1, n, h0, h => by
    unfold Spec.ilog10
    by_cases h10 : n < 10
    · simp only [h10, if_true]
      unfold IsLog10; omega
    · simp only [h10, if_false]
      have hlt : n / 10 < 10 ^ fuel := by
        rw [Nat.pow_succ] at h; omega
      have ih := ilog10_isLog fuel (n / 10) (by omega) hlt
      have := IsLog10.shift (v := n) (m := 1) (k := Spec.ilog10 fuel (n / 10)) (by simpa using ih)
      exact this

/-! ### `less_than_5` and the reductions -/

theorem lessThan5_isLog (v : Nat) (h0 : 0 < v) (h : v < 100000) : IsLog10 v (lessThan5 v) := by
  rw [lessThan5_spec v h]
  unfold log10Small IsLog10
  split
  · omega
  · split
    · omega
    · split
      · omega
      · split <;> omega

theorem lessThan5_zero : lessThan5 0 = 0 := by decide

theorem log10U32_isLog (v : Nat) (h0 : 0 < v) (h : v < 10000000000) : IsLog10 v (log10U32 v) := by
  unfold log10U32 Gen.LOG_U32_T
  by_cases hc : v ≥ 100000
  · simp only [hc, if_true]
    have := lessThan5_isLog (v / 100000) (by omega) (by omega)
    exact IsLog10.shift (v := v) (m := 5) (by simpa using this)
  · simp only [hc, if_false]
    exact lessThan5_isLog v h0 (by omega)

theorem log10U64_isLog (v : Nat) (h0 : 0 < v) (h : v < 100000000000000000000) : IsLog10 v (log10U64 v) := by
  unfold log10U64 Gen.LOG_U64_T1 Gen.LOG_U64_T2
  have e32 : 2 ^ 32 = 4294967296 := by decide
  by_cases hc : v ≥ 10000000000
  · simp only [hc, if_true]
    by_cases hc2 : v / 10000000000 ≥ 100000
    · simp only [hc2, if_true]
      have hm : v / 10000000000 / 100000 % 2 ^ 32 = v / 10000000000 / 100000 := by rw [e32]; omega
      rw [hm]
      have := lessThan5_isLog (v / 10000000000 / 100000) (by omega) (by omega)
      have := IsLog10.shift (v := v / 10000000000) (m := 5) (by simpa using this)
      have := IsLog10.shift (v := v) (m := 10) (by simpa using this)
      rw [Nat.add_assoc]; exact this
    · simp only [hc2, if_false]
      have hm : v / 10000000000 % 2 ^ 32 = v / 10000000000 := by rw [e32]; omega
      rw [hm]
      have := lessThan5_isLog (v / 10000000000) (by omega) (by omega)
      exact IsLog10.shift (v := v) (m := 10) (by simpa using this)
  · simp only [hc, if_false]
    by_cases hc2 : v ≥ 100000
    · simp only [hc2, if_true]
      have hm : v / 100000 % 2 ^ 32 = v / 100000 := by rw [e32]; omega
      rw [hm]
      have := lessThan5_isLog (v / 100000) (by omega) (by omega)
      have := IsLog10.shift (v := v) (m := 5) (by simpa using this)
      simpa using this
    · simp only [hc2, if_false]
      have hm : v % 2 ^ 32 = v := by rw [e32]; omega
      rw [hm]
      simpa using lessThan5_isLog v h0 (by omega)

theorem log10U128_isLog (v : Nat) (h0 : 0 < v) (h : v < 340282366920938463463374607431768211456) :
    IsLog10 v (log10U128 v) := by
  unfold log10U128 Gen.LOG_U128_T1 Gen.LOG_U128_T2
  have e32 : 2 ^ 32 = 4294967296 := by decide
  have e64 : 2 ^ 64 = 18446744073709551616 := by decide
  by_cases hc : v ≥ 100000000000000000000000000000000
  · simp only [hc, if_true]
    have hm : v / 100000000000000000000000000000000 % 2 ^ 32 = v / 100000000000000000000000000000000 := by
      rw [e32]; omega
    rw [hm]
    have := log10U32_isLog (v / 100000000000000000000000000000000) (by omega) (by omega)
    exact IsLog10.shift (v := v) (m := 32) (by simpa using this)
  · simp only [hc, if_false]
    by_cases hc2 : v ≥ 10000000000000000
    · simp only [hc2, if_true]
      have hm : v / 10000000000000000 % 2 ^ 64 = v / 10000000000000000 := by rw [e64]; omega
      rw [hm]
      have := log10U64_isLog (v / 10000000000000000) (by omega) (by omega)
      exact IsLog10.shift (v := v) (m := 16) (by simpa using this)
    · simp only [hc2, if_false]
      have hm : v % 2 ^ 64 = v := by rw [e64]; omega
      rw [hm]
      simpa using log10U64_isLog v h0 (by omega)

theorem log10U128_zero : log10U128 0 = 0 := by decide

end Fpdec
