import Fpdec.Lemmas.Dom

/-!
# Auxiliary facts for C10 (remainder): truncated modulo, `remI128`, the digit loop `remLoop`
-/

namespace Fpdec
open Fpdec.Model

/-! ## `Int.tmod` -/

/-- uniqueness of the truncated remainder (weak sign form) -/
theorem tmod_unique {A B t r : Int} (hB : B ≠ 0) (h : A = B * t + r) (hlt : r.natAbs < B.natAbs)
    (hs : (0 ≤ r ∧ 0 ≤ A) ∨ (r ≤ 0 ∧ A ≤ 0)) : A.tmod B = r := by
  rcases hs with ⟨hr, hA⟩ | ⟨hr, hA⟩
  · have := (Int.tdiv_tmod_unique (a := A) (b := B) (r := r) (q := t) hA hB).2 ⟨by omega, hr, by omega⟩
    exact this.2
  · have := (Int.tdiv_tmod_unique' (a := A) (b := B) (r := r) (q := t) hA hB).2 ⟨by omega, by omega, hr⟩
    exact this.2

/-- `tmod` is THE remainder of the statement: `A = B·t + r`, `|r| < |B|`, `r` zero or of the sign of `A` — and it is unique -/
theorem tmod_characterisation' (A B r : Int) (hB : B ≠ 0) :
    r = A.tmod B ↔ (∃ t : Int, A = B * t + r) ∧ r.natAbs < B.natAbs ∧ (r = 0 ∨ (0 < r ∧ 0 < A) ∨ (r < 0 ∧ A < 0)) := by
  constructor
  · intro h
    subst h
    refine ⟨⟨A.tdiv B, (Int.mul_tdiv_add_tmod A B).symm⟩, ?_, ?_⟩
    · rw [Int.natAbs_tmod]
      exact Nat.mod_lt _ (by omega)
    · rcases Int.lt_trichotomy A 0 with hA | hA | hA
      · have h1 : 0 ≤ (-A).tmod B := Int.tmod_nonneg B (by omega)
        rw [Int.neg_tmod] at h1
        omega
      · subst hA; left; simp
      · have h1 : 0 ≤ A.tmod B := Int.tmod_nonneg B (by omega)
        omega
  · rintro ⟨⟨t, ht⟩, hlt, hs⟩
    symm
    apply tmod_unique hB ht hlt
    omega

/-- a dividend smaller in magnitude than the divisor is its own remainder -/
theorem tmod_eq_self_of_natAbs_lt {a B : Int} (h : a.natAbs < B.natAbs) : a.tmod B = a := by
  have hB : B ≠ 0 := by omega
  apply tmod_unique (t := 0) hB (by simp) h
  omega

/-- the step of the digit loop -/
theorem tmod_mul_tmod (x b c : Int) : (x.tmod b * c).tmod b = (x * c).tmod b := by
  rw [Int.mul_tmod (x.tmod b) c b, Int.tmod_tmod, ← Int.mul_tmod]

theorem tmod_mul_eq_zero {x b : Int} (c : Int) (h : x.tmod b = 0) : (x * c).tmod b = 0 := by
  rw [← tmod_mul_tmod, h]; simp

/-! ## `remI128` -/

theorem remI128_ok {x y : Int} (hy : y ≠ 0) (hx : x ≠ I128_MIN) : remI128 x y = .ok (x.tmod y) := by
  unfold remI128; simp [hy, hx]

theorem wrappingRemI128_ok {x y : Int} (hy : y ≠ 0) : wrappingRemI128 x y = .ok (x.tmod y) := by
  unfold wrappingRemI128; simp [hy]

theorem remI128_ok' {x y : Int} (hy : y ≠ 0) (hy1 : y ≠ -1) : remI128 x y = .ok (x.tmod y) := by
  unfold remI128; simp [hy, hy1]

/-! ## the digit loop -/

/-- `remLoop b k r` started at `r = x tmod b`: either the overflow signal, or `(x·10^k) tmod b` -/
theorem remLoop_spec (b : Int) (hb0 : b ≠ 0) : ∀ (k : Nat) (x : Int),
    remLoop b k (x.tmod b) = .ok none ∨ remLoop b k (x.tmod b) = .ok (some ((x * (10 : Int) ^ k).tmod b)) := by
  intro k
  induction k with
  | zero => intro x; right; simp [remLoop]
  | succ k ih =>
    intro x
    unfold remLoop
    by_cases h0 : x.tmod b = 0
    · right
      rw [if_pos h0, tmod_mul_eq_zero _ h0, h0]
    · rw [if_neg h0]
      cases hc : checkedI128 (x.tmod b * 10) with
      | none => left; rfl
      | some s =>
        have hs : s = x.tmod b * 10 := by
          unfold checkedI128 at hc
          split at hc
          · exact (Option.some.inj hc).symm
          · cases hc
        have hne : s ≠ I128_MIN := by unfold I128_MIN; omega
        simp only []
        rw [remI128_ok hb0 hne, Outcome.bind_ok, hs, tmod_mul_tmod]
        have e : x * (10 : Int) ^ (k + 1) = x * 10 * (10 : Int) ^ k := by
          rw [Int.pow_succ, Int.mul_assoc, Int.mul_comm 10]
        rw [e]
        exact ih (x * 10)

end Fpdec
