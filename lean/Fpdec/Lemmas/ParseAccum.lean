import Fpdec.Lemmas.ParseSwar
import Mathlib.Tactic.Ring

/-! # The accumulation loops of the parser (helper file for `Fpdec.Lemmas.Parse`) -/

namespace Fpdec.ParseAux
open Fpdec Fpdec.Model

/-! ## `digitsVal`, `spanDigits` -/

theorem foldl_digits (acc : Nat) (ds : List Nat) :
    ds.foldl (fun acc c => acc * 10 + (c - 48)) acc = acc * 10 ^ ds.length + Spec.digitsVal ds := by
  induction ds generalizing acc with
  | nil => simp [Spec.digitsVal]
  | cons c ds ih =>
    unfold Spec.digitsVal
    simp only [List.foldl_cons, List.length_cons]
    rw [ih, ih (0 * 10 + (c - 48))]
    unfold Spec.digitsVal
    ring

theorem digitsVal_nil : Spec.digitsVal [] = 0 := rfl

theorem digitsVal_append (a b : List Nat) :
    Spec.digitsVal (a ++ b) = Spec.digitsVal a * 10 ^ b.length + Spec.digitsVal b := by
  conv => lhs; unfold Spec.digitsVal
  rw [List.foldl_append, foldl_digits]
  rfl

theorem digitsVal_cons (c : Nat) (ds : List Nat) :
    Spec.digitsVal (c :: ds) = (c - 48) * 10 ^ ds.length + Spec.digitsVal ds := by
  have := digitsVal_append [c] ds
  simpa [Spec.digitsVal] using this

theorem span_nil : Spec.spanDigits [] = ([], []) := rfl

theorem span_cons_dig (c : Nat) (cs : List Nat) (h : Spec.isDig c = true) :
    Spec.spanDigits (c :: cs) = (c :: (Spec.spanDigits cs).1, (Spec.spanDigits cs).2) := by
  simp [Spec.spanDigits, h]

theorem span_cons_nondig (c : Nat) (cs : List Nat) (h : Spec.isDig c = false) :
    Spec.spanDigits (c :: cs) = ([], c :: cs) := by
  simp [Spec.spanDigits, h]

theorem span_append (s : List Nat) : (Spec.spanDigits s).1 ++ (Spec.spanDigits s).2 = s := by
  induction s with
  | nil => rfl
  | cons c cs ih =>
    cases h : Spec.isDig c
    · rw [span_cons_nondig c cs h]; rfl
    · rw [span_cons_dig c cs h]; simp [ih]

theorem span_digits (s : List Nat) : ∀ c ∈ (Spec.spanDigits s).1, Spec.isDig c = true := by
  induction s with
  | nil => simp [span_nil]
  | cons c cs ih =>
    cases h : Spec.isDig c
    · rw [span_cons_nondig c cs h]; simp
    · rw [span_cons_dig c cs h]; simp [h]; exact ih

/-- a digit prefix is absorbed by `spanDigits` -/
theorem span_prefix (p r : List Nat) (hp : ∀ c ∈ p, Spec.isDig c = true) :
    Spec.spanDigits (p ++ r) = (p ++ (Spec.spanDigits r).1, (Spec.spanDigits r).2) := by
  induction p with
  | nil => simp
  | cons c p ih =>
    have hc : Spec.isDig c = true := hp c (by simp)
    have ih := ih (fun x hx => hp x (by simp [hx]))
    rw [List.cons_append, span_cons_dig _ _ hc, ih]; rfl

theorem span_length (s : List Nat) :
    (Spec.spanDigits s).1.length + (Spec.spanDigits s).2.length = s.length := by
  have := congrArg List.length (span_append s)
  simpa using this

/-- `digitVal c < 10` is the digit test on bytes -/
theorem digitVal_lt_iff : ∀ c, c < 256 → (digitVal c < 10 ↔ Spec.isDig c = true) := by
  decide +kernel

theorem digitVal_eq (c : Nat) (h : Spec.isDig c = true) : digitVal c = c - 48 := by
  have : 48 ≤ c ∧ c ≤ 57 := by simpa [Spec.isDig] using h
  unfold digitVal; omega

/-! ## saturating arithmetic -/

def M128 : Nat := U128_MOD - 1

theorem sat_step10 (a b : Nat) :
    satAddU128 (satMulU128 (Nat.min a M128) 10) b = Nat.min (a * 10 + b) M128 := by
  unfold satAddU128 satMulU128 M128 U128_MOD
  simp only [Nat.min_def]
  split <;> split <;> split <;> split <;> omega

theorem sat_step8 (a b : Nat) :
    satAddU128 (satMulU128 (Nat.min a M128) Gen.PARSE_CHUNK_MUL) b = Nat.min (a * 10 ^ 8 + b) M128 := by
  have e : Gen.PARSE_CHUNK_MUL = 100000000 := rfl
  have e' : (10 : Nat) ^ 8 = 100000000 := by decide
  rw [e, e']
  unfold satAddU128 satMulU128 M128 U128_MOD
  simp only [Nat.min_def]
  split <;> split <;> split <;> split <;> omega

theorem min_absorb (a k b : Nat) (hk : 1 ≤ k) :
    Nat.min (Nat.min a M128 * k + b) M128 = Nat.min (a * k + b) M128 := by
  show min (min a M128 * k + b) M128 = min (a * k + b) M128
  by_cases h : a ≤ M128
  · rw [Nat.min_eq_left h]
  · have h' : M128 ≤ a := by omega
    rw [Nat.min_eq_right h']
    have h1 : M128 ≤ M128 * k := Nat.le_mul_of_pos_right _ hk
    have h2 : a ≤ a * k := Nat.le_mul_of_pos_right _ hk
    rw [Nat.min_eq_right (by omega), Nat.min_eq_right (by omega)]

/-! ## the two loops -/

theorem accumDigits_spec (a : Nat) (s : List Nat) (hb : ∀ x ∈ s, x < 256) :
    accumDigits (Nat.min a M128) s =
      (Nat.min (a * 10 ^ (Spec.spanDigits s).1.length + Spec.digitsVal (Spec.spanDigits s).1) M128,
       (Spec.spanDigits s).2) := by
  induction s generalizing a with
  | nil => simp [accumDigits, span_nil, digitsVal_nil]
  | cons c cs ih =>
    have hc : c < 256 := hb c (by simp)
    have ih := fun a => ih a (fun x hx => hb x (by simp [hx]))
    unfold accumDigits
    cases h : Spec.isDig c
    · have : ¬ digitVal c < 10 := by rw [digitVal_lt_iff c hc, h]; simp
      simp only [this, if_false]
      rw [span_cons_nondig c cs h]; simp [digitsVal_nil]
    · have : digitVal c < 10 := by rw [digitVal_lt_iff c hc, h]
      simp only [this, if_true]
      rw [sat_step10, ih, span_cons_dig c cs h, digitVal_eq c h]
      simp only [List.length_cons, digitsVal_cons]
      congr 2
      ring

theorem accumChunks_spec (fuel : Nat) : ∀ (a : Nat) (s : List Nat), (∀ x ∈ s, x < 256) →
    ∃ p r, s = p ++ r ∧ (∀ c ∈ p, Spec.isDig c = true) ∧
      accumChunks fuel (Nat.min a M128) s = (Nat.min (a * 10 ^ p.length + Spec.digitsVal p) M128, r) := by
  induction fuel with
  | zero => intro a s _; exact ⟨[], s, by simp, by simp, by simp [accumChunks, digitsVal_nil]⟩
  | succ fuel ih =>
    intro a s hb
    unfold accumChunks
    unfold readU64
    by_cases hl : s.length ≥ 8
    · simp only [hl, if_true]
      have hlen : (s.take 8).length = 8 := by simp; omega
      have hbt : ∀ c ∈ s.take 8, c < 256 := fun c hc => hb c (List.mem_of_mem_take hc)
      by_cases hd : chunkContains8Digits (leBytes (s.take 8)) = true
      · simp only [hd, if_true]
        have hdig := (contains8_iff _ hlen hbt).mp hd
        rw [toU64_val _ hlen hdig, sat_step8]
        obtain ⟨p, r, hs, hp, he⟩ := ih (a * 10 ^ 8 + Spec.digitsVal (s.take 8)) (s.drop 8)
          (fun c hc => hb c (List.mem_of_mem_drop hc))
        refine ⟨s.take 8 ++ p, r, ?_, ?_, ?_⟩
        · rw [List.append_assoc, ← hs, List.take_append_drop]
        · intro c hc
          rcases List.mem_append.mp hc with h | h
          · exact hdig c h
          · exact hp c h
        · rw [he, digitsVal_append, List.length_append, hlen]
          congr 2
          ring
      · simp only [hd]
        exact ⟨[], s, by simp, by simp, by simp [digitsVal_nil]⟩
    · simp only [hl, if_false]
      exact ⟨[], s, by simp, by simp, by simp [digitsVal_nil]⟩

theorem accumCoeff_gen (a : Nat) (s : List Nat) (hb : ∀ x ∈ s, x < 256) :
    accumCoeff (Nat.min a M128) s =
      (Nat.min (a * 10 ^ (Spec.spanDigits s).1.length + Spec.digitsVal (Spec.spanDigits s).1) M128,
       (Spec.spanDigits s).2, (Spec.spanDigits s).1.length) := by
  obtain ⟨p, r, hs, hp, he⟩ := accumChunks_spec s.length a s hb
  unfold accumCoeff
  rw [he]
  have hbr : ∀ x ∈ r, x < 256 := fun x hx => hb x (by rw [hs]; simp [hx])
  simp only
  rw [accumDigits_spec _ r hbr]
  have hsp := span_prefix p r hp
  rw [← hs] at hsp
  rw [hsp]
  simp only [List.length_append, digitsVal_append]
  have hl := span_length r
  have hl2 : s.length = p.length + r.length := by rw [hs]; simp
  refine Prod.ext ?_ (Prod.ext rfl ?_)
  · simp only; congr 1; ring
  · simp only; omega

end Fpdec.ParseAux
