import Fpdec.Lemmas.FromFloatTail

/-!
# Bit level: `f64_decode` / `f32_decode` and `Spec.decodeBits` in terms of `/` and `%`
-/

namespace Fpdec
open Fpdec.Model

set_option linter.auxLemma false

theorem i16_cast_small {x : Int} (h0 : 0 ≤ x) (h1 : x < 32768) : IntTy.i16.cast x = x := by
  unfold IntTy.cast IntTy.wrap IntTy.i16
  simp only [if_true]
  have e1 : (2 : Int) ^ (16 - 1) = 32768 := by decide
  have e2 : (2 : Int) ^ 16 = 65536 := by decide
  rw [e1, e2]; omega

/-- the array-literal `match` of `floatDecode` on an explicit array -/
theorem decode_match {motive : Array Nat → Sort _} (a b c d e f g h : Nat)
    (h1 : (a b c d e f g h : Nat) → motive #[a, b, c, d, e, f, g, h]) (h2 : (x : Array Nat) → motive x) :
    floatDecode.match_3 motive #[a, b, c, d, e, f, g, h] h1 h2 = h1 a b c d e f g h := rfl

theorem consts_f64 :
    decodeConsts Spec.FloatFmt.f64 = #[52, 2047, 2047, 4503599627370495, 4503599627370496, 1023, 52, 63] := by
  unfold decodeConsts Gen.F64_DECODE; rfl

theorem consts_f32 : decodeConsts Spec.FloatFmt.f32 = #[23, 255, 255, 8388607, 8388608, 127, 23, 31] := by
  unfold decodeConsts Gen.F32_DECODE; rfl

/-- `f64_decode` on a finite bit pattern -/
theorem floatDecode_f64 (bits : Nat) (hb : bits < 18446744073709551616)
    (hne : bits / 4503599627370496 % 2048 ≠ 2047) :
    floatDecode Spec.FloatFmt.f64 bits = .ok (
      if bits / 4503599627370496 % 2048 = 0 then (0, 0, 0)
      else (bits % 4503599627370496 + 4503599627370496,
            ((bits / 4503599627370496 % 2048 : Nat) : Int) - 1075,
            1 - 2 * ((bits / 9223372036854775808 : Nat) : Int))) := by
  unfold floatDecode
  rw [consts_f64, decode_match]
  simp only []
  have e1 : bits >>> 52 = bits / 4503599627370496 := by rw [Nat.shiftRight_eq_div_pow]
  have e2 : ∀ x : Nat, x &&& 2047 = x % 2048 := fun x => Nat.and_two_pow_sub_one_eq_mod x 11
  have e3 : bits &&& 4503599627370495 = bits % 4503599627370496 := Nat.and_two_pow_sub_one_eq_mod bits 52
  have e4 : bits >>> 63 = bits / 9223372036854775808 := by rw [Nat.shiftRight_eq_div_pow]
  rw [e1, e2, e3, e4]
  have hbe : bits / 4503599627370496 % 2048 < 2048 := Nat.mod_lt _ (by decide)
  rw [i16_cast_small (by omega) (by omega)]
  have hs : bits / 9223372036854775808 < 2 := by omega
  have e5 : bits / 9223372036854775808 % 256 = bits / 9223372036854775808 := Nat.mod_eq_of_lt (by omega)
  have e6 : bits % 4503599627370496 ||| 4503599627370496 = bits % 4503599627370496 + 4503599627370496 := by
    have := Nat.two_pow_add_eq_or_of_lt (i := 52) (b := bits % 4503599627370496) (Nat.mod_lt _ (by decide)) 1
    rw [Nat.or_comm]; rw [Nat.add_comm]; exact this.symm
  have e7 : IntTy.i8.cast ((((bits / 9223372036854775808) <<< 1 : Nat) : Int) % 256)
      = 2 * ((bits / 9223372036854775808 : Nat) : Int) := by
    rw [Nat.shiftLeft_eq]
    rw [i8_cast_id (by omega) (by omega)]
    omega
  rw [e5, e6, e7]
  have hdec : decide (((bits / 4503599627370496 % 2048 : Nat) : Int) ≠ ((2047 : Nat) : Int)) = true := by
    simp only [decide_eq_true_eq]; omega
  simp only [assert, hdec, if_true]
  by_cases h0 : bits / 4503599627370496 % 2048 = 0
  · simp [h0]
  · have h0' : ¬ ((bits / 4503599627370496 % 2048 : Nat) : Int) = 0 := by omega
    simp only [h0, h0', if_false]
    congr 3
    omega

/-- `f32_decode` on a finite bit pattern -/
theorem floatDecode_f32 (bits : Nat) (hb : bits < 4294967296)
    (hne : bits / 8388608 % 256 ≠ 255) :
    floatDecode Spec.FloatFmt.f32 bits = .ok (
      if bits / 8388608 % 256 = 0 then (0, 0, 0)
      else (bits % 8388608 + 8388608,
            ((bits / 8388608 % 256 : Nat) : Int) - 150,
            1 - 2 * ((bits / 2147483648 : Nat) : Int))) := by
  unfold floatDecode
  rw [consts_f32, decode_match]
  simp only []
  have e1 : bits >>> 23 = bits / 8388608 := by rw [Nat.shiftRight_eq_div_pow]
  have e2 : ∀ x : Nat, x &&& 255 = x % 256 := fun x => Nat.and_two_pow_sub_one_eq_mod x 8
  have e3 : bits &&& 8388607 = bits % 8388608 := Nat.and_two_pow_sub_one_eq_mod bits 23
  have e4 : bits >>> 31 = bits / 2147483648 := by rw [Nat.shiftRight_eq_div_pow]
  rw [e1, e2, e3, e4]
  have hbe : bits / 8388608 % 256 < 256 := Nat.mod_lt _ (by decide)
  rw [i16_cast_small (by omega) (by omega)]
  have hs : bits / 2147483648 < 2 := by omega
  have e5 : bits / 2147483648 % 256 = bits / 2147483648 := Nat.mod_eq_of_lt (by omega)
  have e6 : bits % 8388608 ||| 8388608 = bits % 8388608 + 8388608 := by
    have := Nat.two_pow_add_eq_or_of_lt (i := 23) (b := bits % 8388608) (Nat.mod_lt _ (by decide)) 1
    rw [Nat.or_comm]; rw [Nat.add_comm]; exact this.symm
  have e7 : IntTy.i8.cast ((((bits / 2147483648) <<< 1 : Nat) : Int) % 256)
      = 2 * ((bits / 2147483648 : Nat) : Int) := by
    rw [Nat.shiftLeft_eq]
    rw [i8_cast_id (by omega) (by omega)]
    omega
  rw [e5, e6, e7]
  have hdec : decide (((bits / 8388608 % 256 : Nat) : Int) ≠ ((255 : Nat) : Int)) = true := by
    simp only [decide_eq_true_eq]; omega
  simp only [assert, hdec, if_true]
  by_cases h0 : bits / 8388608 % 256 = 0
  · simp [h0]
  · have h0' : ¬ ((bits / 8388608 % 256 : Nat) : Int) = 0 := by omega
    simp only [h0, h0', if_false]
    congr 3
    omega

/-! ## the spec side -/

theorem fromFloat_eq (f : Spec.FloatFmt) (bits : Nat) :
    Spec.fromFloat f bits =
      if (bits >>> f.fracBits) % 2 ^ f.expBits = 2 ^ f.expBits - 1 then
        (if bits % 2 ^ f.fracBits = 0 then .infinite else .nan)
      else
        specOf (if (bits >>> (f.bits - 1)) % 2 = 1 then -((Spec.decodeBits f (bits % 2 ^ (f.bits - 1))).1 : Int)
                else ((Spec.decodeBits f (bits % 2 ^ (f.bits - 1))).1 : Int))
          ((Spec.decodeBits f (bits % 2 ^ (f.bits - 1))).2 : Int) := by
  rfl

set_option exponentiation.threshold 2000 in
theorem decodeBits_f64 (b : Nat) :
    Spec.decodeBits Spec.FloatFmt.f64 b =
      if b / 4503599627370496 % 2048 = 0 then (b % 4503599627370496, 2 ^ 1074)
      else if ((b / 4503599627370496 % 2048 : Nat) : Int) - 1075 ≥ 0 then
        ((b % 4503599627370496 + 4503599627370496) * 2 ^ (((b / 4503599627370496 % 2048 : Nat) : Int) - 1075).toNat, 1)
      else (b % 4503599627370496 + 4503599627370496, 2 ^ (-(((b / 4503599627370496 % 2048 : Nat) : Int) - 1075)).toNat) := by
  unfold Spec.decodeBits Spec.FloatFmt.f64 Spec.FloatFmt.bias
  simp only [Nat.shiftRight_eq_div_pow]
  have e52 : (2 : Nat) ^ 52 = 4503599627370496 := by decide
  have e11 : (2 : Nat) ^ 11 = 2048 := by decide
  have eb : ((2 : Int) ^ (11 - 1) - 1) = 1023 := by decide
  have ec : ∀ x : Int, x - 1023 - ((52 : Nat) : Int) = x - 1075 := by intro x; omega
  have ed : ((1023 : Int) + ((52 : Nat) : Int) - 1).toNat = 1074 := by decide
  rw [e52, e11, eb, ed, ec]

theorem decodeBits_f32 (b : Nat) :
    Spec.decodeBits Spec.FloatFmt.f32 b =
      if b / 8388608 % 256 = 0 then (b % 8388608, 2 ^ 149)
      else if ((b / 8388608 % 256 : Nat) : Int) - 150 ≥ 0 then
        ((b % 8388608 + 8388608) * 2 ^ (((b / 8388608 % 256 : Nat) : Int) - 150).toNat, 1)
      else (b % 8388608 + 8388608, 2 ^ (-(((b / 8388608 % 256 : Nat) : Int) - 150)).toNat) := by
  unfold Spec.decodeBits Spec.FloatFmt.f32 Spec.FloatFmt.bias
  simp only [Nat.shiftRight_eq_div_pow]
  have e23 : (2 : Nat) ^ 23 = 8388608 := by decide
  have e8 : (2 : Nat) ^ 8 = 256 := by decide
  have eb : ((2 : Int) ^ (8 - 1) - 1) = 127 := by decide
  have ec : ∀ x : Int, x - 127 - ((23 : Nat) : Int) = x - 150 := by intro x; omega
  have ed : ((127 : Int) + ((23 : Nat) : Int) - 1).toNat = 149 := by decide
  rw [e23, e8, eb, ed, ec]

end Fpdec
