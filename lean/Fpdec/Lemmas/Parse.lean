import Fpdec.Lemmas.Dom
import Fpdec.Spec.Text
import Fpdec.Model.Parser
import Fpdec.Lemmas.ParseMain

/-!
# C06 — the literal parser

Model: Fpdec/Model/Parser.lean (`chunkContains8Digits`, `chunkToU64`, `leBytes`, `readU64`, `accumChunks`, `accumDigits`,
`accumCoeff`, `accumExp`, `takeSign`, `skipLeadingZeroes`, `strToDec`, `fromStr`), mirror of /repo/fpdec-core/src/parser.rs and
/repo/src/from_str.rs.  Spec: `Spec.parseSpec` in Fpdec/Spec/Text.lean (one character at a time, unbounded integers).
Strings are lists of bytes (`Nat < 256`).  The hypothesis `s.length < 2^56` is needed because the exponent accumulator
saturates at `isize::MAX / 100` (see `EXP_LIMIT`): with it no isize operation overflows and saturation never changes the verdict.
-/

namespace Fpdec
open Fpdec.Model

/-- SWAR test: the eight bytes (little endian in a u64) are all ASCII digits -/
theorem chunkContains8Digits_iff (bs : List Nat) (hlen : bs.length = 8) (hb : ∀ c ∈ bs, c < 256) :
    chunkContains8Digits (leBytes bs) = true ↔ ∀ c ∈ bs, Spec.isDig c = true :=
  ParseAux.contains8_iff bs hlen hb

/-- SWAR conversion: eight ASCII digits to their decimal value -/
theorem chunkToU64_val (bs : List Nat) (hlen : bs.length = 8) (hd : ∀ c ∈ bs, Spec.isDig c = true) :
    chunkToU64 (leBytes bs) = Spec.digitsVal bs :=
  ParseAux.toU64_val bs hlen hd

/-- `accum_coeff` consumes exactly the leading digits and accumulates their value, saturating at `u128::MAX` -/
theorem accumCoeff_spec (c : Nat) (s : List Nat) (hb : ∀ x ∈ s, x < 256) (hc : c < U128_MOD) :
    accumCoeff c s =
      (Nat.min (c * 10 ^ (Spec.spanDigits s).1.length + Spec.digitsVal (Spec.spanDigits s).1) (U128_MOD - 1),
       (Spec.spanDigits s).2, (Spec.spanDigits s).1.length) := by
  have h := ParseAux.accumCoeff_gen c s hb
  have hm : Nat.min c ParseAux.M128 = c := by
    show min c ParseAux.M128 = c
    unfold ParseAux.M128; omega
  rw [hm] at h
  exact h

/-- MAIN THEOREM: `Decimal::from_str` accepts exactly the grammar of `Spec.parseSpec`, returns exactly its value, never panics
    (in any profile), and reports `Empty` only for the empty string -/
theorem fromStr_spec (prof : Profile) (s : List Nat) (hb : ∀ c ∈ s, c < 256) (hlen : s.length < 2 ^ 56) :
    match Spec.parseSpec s, fromStr prof s with
    | .ok c p, .ok (.ok d) => d = ⟨c, p⟩
    | .empty, .ok (.error e) => e = ParseErr.empty
    | .bad, .ok (.error e) => e ≠ ParseErr.empty
    | _, _ => False := by
  have h := ParseAux.fromStr_agree prof s hb hlen
  unfold ParseAux.agree at h
  generalize Spec.parseSpec s = a at h ⊢
  generalize fromStr prof s = b at h ⊢
  exact h

#print axioms chunkContains8Digits_iff
#print axioms chunkToU64_val
#print axioms accumCoeff_spec
#print axioms fromStr_spec

end Fpdec
