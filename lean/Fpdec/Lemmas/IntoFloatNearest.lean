import Fpdec.Lemmas.IntoFloatArith
import Mathlib.Tactic.Linarith
import Mathlib.Tactic.Ring
import Mathlib.Tactic.LinearCombination

/-!
# Justification of the spec function `Spec.rneBits` (secondary goal of C12)
-/

namespace Fpdec.FloatArith
open Fpdec Fpdec.Spec

/-- characterisation of `floorLog2Ratio`: `2^e ≤ num/den < 2^(e+1)`, written with two natural exponents `a - b = e` -/
theorem floorLog2Ratio_spec (num den a b : Nat) (hnum : num ≠ 0) (hden : den ≠ 0)
    (h : floorLog2Ratio num den = (a : Int) - b) :
    den * 2 ^ a ≤ num * 2 ^ b ∧ num * 2 ^ b < den * 2 ^ (a + 1) := by
  generalize hs : den.log2 + 1 - num.log2 = s
  generalize ht : num.log2 - (den.log2 + 1) = t
  have hst : num.log2 + s = den.log2 + t + 1 := by omega
  have hfl := floorLog2Ratio_eq num den s t 1 hden hst
  have hNlog : (num * 2 ^ s).log2 = num.log2 + s := log2_mul_two_pow hnum s
  have hDlog : (den * 2 ^ t).log2 = den.log2 + t := log2_mul_two_pow hden t
  have hN0 : num * 2 ^ s ≠ 0 := Nat.mul_ne_zero hnum (Nat.ne_of_gt (Nat.two_pow_pos s))
  have hD0 : den * 2 ^ t ≠ 0 := Nat.mul_ne_zero hden (Nat.ne_of_gt (Nat.two_pow_pos t))
  have hDpos := Nat.pos_of_ne_zero hD0
  obtain ⟨hq0, hq1⟩ := quot_range (add := 1) hN0 hD0 (Nat.le_refl 1) (by rw [hNlog, hDlog]; omega)
  obtain ⟨c, hc, hc0, hc1⟩ : ∃ c : Nat, (t : Int) + c - s = a - b ∧
      den * 2 ^ t * 2 ^ c ≤ num * 2 ^ s ∧ num * 2 ^ s < den * 2 ^ t * 2 ^ (c + 1) := by
    by_cases hadj : num * 2 ^ s / (den * 2 ^ t) < 2 ^ 1
    · rw [if_pos hadj] at hfl
      refine ⟨0, by omega, ?_, ?_⟩
      · have := (Nat.le_div_iff_mul_le hDpos).1 hq0
        simpa [Nat.mul_comm] using this
      · have := (Nat.div_lt_iff_lt_mul hDpos).1 hadj
        simpa [Nat.mul_comm] using this
    · rw [if_neg hadj] at hfl
      refine ⟨1, by omega, ?_, ?_⟩
      · have := (Nat.le_div_iff_mul_le hDpos).1 (Nat.le_of_not_lt hadj)
        simpa [Nat.mul_comm] using this
      · have := (Nat.div_lt_iff_lt_mul hDpos).1 hq1
        simpa [Nat.mul_comm] using this
  have hexp : a + s = b + t + c := by omega
  have hsp := Nat.two_pow_pos s
  constructor
  · apply Nat.le_of_mul_le_mul_right _ hsp
    calc den * 2 ^ a * 2 ^ s = den * 2 ^ (a + s) := by ring
      _ = den * 2 ^ t * 2 ^ c * 2 ^ b := by rw [hexp]; ring
      _ ≤ num * 2 ^ s * 2 ^ b := Nat.mul_le_mul_right _ hc0
      _ = num * 2 ^ b * 2 ^ s := by ring
  · apply Nat.lt_of_mul_lt_mul_right (a := 2 ^ s)
    calc num * 2 ^ b * 2 ^ s = num * 2 ^ s * 2 ^ b := by ring
      _ < den * 2 ^ t * 2 ^ (c + 1) * 2 ^ b := Nat.mul_lt_mul_of_pos_right hc1 (Nat.two_pow_pos b)
      _ = den * 2 ^ (b + t + c + 1) := by ring
      _ = den * 2 ^ (a + 1) * 2 ^ s := by rw [← hexp]; ring

/-- the significand computed by the spec, written with two natural exponents `a - b = e - fracBits` -/
theorem spec_m_eq (num den a b : Nat) (sh : Int) (h : sh = (a : Int) - b) :
    (if sh ≥ 0 then rhe num (den * 2 ^ sh.toNat) else rhe (num * 2 ^ (-sh).toNat) den)
      = rhe (num * 2 ^ b) (den * 2 ^ a) := by
  rw [rhe_shift, h]

/-- `rhe n d` is a nearest integer to `n/d`, and even when there is a second nearest one -/
theorem rhe_nearest (n d k : Nat) (hd : 0 < d) :
    ((n : Int) - (rhe n d * d : Nat)).natAbs ≤ ((n : Int) - (k * d : Nat)).natAbs ∧
    (((n : Int) - (rhe n d * d : Nat)).natAbs = ((n : Int) - (k * d : Nat)).natAbs → k ≠ rhe n d → rhe n d % 2 = 0) := by
  have h1 := Nat.div_add_mod n d
  have h2 := Nat.mod_lt n hd
  unfold rhe
  simp only
  generalize n / d = fl at *
  generalize n % d = r at *
  have e1 : (fl + 1) * d = d * fl + d := by ring
  have e2 : fl * d = d * fl := by ring
  rcases Nat.lt_or_ge fl k with hk | hk
  · obtain ⟨j, rfl⟩ : ∃ j, k = fl + 1 + j := ⟨k - fl - 1, by omega⟩
    have e3 : (fl + 1 + j) * d = d * fl + d + j * d := by ring
    have : 0 < j → d ≤ j * d := fun h => Nat.le_mul_of_pos_left d h
    rcases Nat.eq_zero_or_pos j with rfl | hj
    · simp only [Nat.zero_mul, Nat.add_zero] at *
      repeat' split
      all_goals (rw [e1] at *; try rw [e2] at *); omega
    · have := this hj
      repeat' split
      all_goals (rw [e3]; try rw [e1]; try rw [e2]); omega
  · obtain ⟨j, rfl⟩ : ∃ j, fl = k + j := ⟨fl - k, by omega⟩
    have e3 : (k + j + 1) * d = k * d + j * d + d := by ring
    have e4 : (k + j) * d = k * d + j * d := by ring
    have e5 : d * (k + j) = k * d + j * d := by ring
    have : 0 < j → d ≤ j * d := fun h => Nat.le_mul_of_pos_left d h
    rw [e5] at h1
    rcases Nat.eq_zero_or_pos j with rfl | hj
    · simp only [Nat.zero_mul, Nat.add_zero] at *
      repeat' split
      all_goals (try rw [e1] at *); omega
    · have := this hj
      repeat' split
      all_goals (try rw [e3]; try rw [e4]); omega


/-- no carry out of the largest binade when `2·n/d < 2c - 1` -/
theorem rhe_lt (n d c : Nat) (hd : 0 < d) (h : 2 * n < d * (2 * c - 1)) : rhe n d < c := by
  have h1 := Nat.div_add_mod n d
  have h2 := Nat.mod_lt n hd
  have hc : 1 ≤ c := by
    rcases Nat.eq_zero_or_pos c with rfl | hc
    · simp at h
    · exact hc
  unfold rhe
  simp only
  generalize n / d = fl at *
  generalize n % d = r at *
  have e0 : d * (2 * c - 1) = 2 * (d * c) - d := by
    rw [Nat.mul_sub, Nat.mul_one]; congr 1; ring
  rw [e0] at h
  rcases Nat.lt_or_ge fl c with hlt | hge
  · rcases Nat.lt_or_ge (fl + 1) c with hlt2 | hge2
    · repeat' split
      all_goals omega
    · have : c = fl + 1 := by omega
      subst this
      have : d * (fl + 1) = d * fl + d := by ring
      rw [this] at h
      repeat' split
      all_goals omega
  · have := Nat.mul_le_mul_left d hge
    omega

theorem rhe_ge (n d c : Nat) (hd : 0 < d) (h : d * c ≤ n) : c ≤ rhe n d := by
  have : c ≤ n / d := (Nat.le_div_iff_mul_le hd).2 (by rw [Nat.mul_comm]; exact h)
  rcases rhe_floor n d with h | h <;> omega

theorem rhe_le (n d c : Nat) (hd : 0 < d) (h : n < d * c) : rhe n d ≤ c := by
  have : n / d < c := (Nat.div_lt_iff_lt_mul hd).2 (by rw [Nat.mul_comm]; exact h)
  rcases rhe_floor n d with h | h <;> omega

/-! ### bit patterns -/

/-- value of a bit pattern (sign cleared) times `2^(bias + fracBits - 1)`: always a natural number -/
def sv (f : FloatFmt) (bits : Nat) : Nat :=
  let frac := bits % 2 ^ f.fracBits
  let be := (bits >>> f.fracBits) % 2 ^ f.expBits
  if be = 0 then frac else (frac + 2 ^ f.fracBits) * 2 ^ (be - 1)

theorem decode_sv (f : FloatFmt) (bs : Nat) (hbs : f.bias = bs) (hbs1 : 1 ≤ bs) (bits : Nat) :
    0 < (decodeBits f bits).2 ∧
      (decodeBits f bits).1 * 2 ^ (bs + f.fracBits - 1) = sv f bits * (decodeBits f bits).2 := by
  unfold decodeBits sv
  simp only [hbs]
  generalize bits % 2 ^ f.fracBits = frac
  generalize (bits >>> f.fracBits) % 2 ^ f.expBits = be
  by_cases h0 : be = 0
  · simp only [if_pos h0]
    have : ((bs : Int) + f.fracBits - 1).toNat = bs + f.fracBits - 1 := by omega
    rw [this]; exact ⟨Nat.two_pow_pos _, rfl⟩
  · simp only [if_neg h0]
    by_cases h1 : (be : Int) - bs - f.fracBits ≥ 0
    · simp only [if_pos h1]
      refine ⟨Nat.one_pos, ?_⟩
      rw [Nat.mul_one, Nat.mul_assoc, ← Nat.pow_add]; congr 2; omega
    · simp only [if_neg h1]
      refine ⟨Nat.two_pow_pos _, ?_⟩
      rw [Nat.mul_assoc, ← Nat.pow_add]; congr 2; omega

/-- every pattern is either below `2^e` or a multiple of the ulp of binade `e` (scaled: `2^E`) -/
theorem sv_multiple (f : FloatFmt) (b E : Nat) :
    sv f b < 2 ^ (f.fracBits + E) ∨ ∃ k, sv f b = k * 2 ^ E := by
  unfold sv
  simp only
  have hfrac : b % 2 ^ f.fracBits < 2 ^ f.fracBits := Nat.mod_lt _ (Nat.two_pow_pos _)
  generalize b % 2 ^ f.fracBits = frac at *
  generalize (b >>> f.fracBits) % 2 ^ f.expBits = be
  by_cases h0 : be = 0
  · rw [if_pos h0]; left
    exact Nat.lt_of_lt_of_le hfrac (Nat.pow_le_pow_right (by decide) (by omega))
  · rw [if_neg h0]
    by_cases hE : E ≤ be - 1
    · right
      refine ⟨(frac + 2 ^ f.fracBits) * 2 ^ (be - 1 - E), ?_⟩
      rw [Nat.mul_assoc, ← Nat.pow_add]; congr 2; omega
    · left
      calc (frac + 2 ^ f.fracBits) * 2 ^ (be - 1) < 2 ^ (f.fracBits + 1) * 2 ^ (be - 1) := by
            apply Nat.mul_lt_mul_of_pos_right _ (Nat.two_pow_pos _)
            rw [Nat.pow_succ]; omega
        _ = 2 ^ (f.fracBits + 1 + (be - 1)) := by rw [← Nat.pow_add]
        _ ≤ 2 ^ (f.fracBits + E) := Nat.pow_le_pow_right (by decide) (by omega)

theorem fields (fb eb be lo : Nat) (hlo : lo < 2 ^ fb) (hbe : be < 2 ^ eb) :
    ((be <<< fb) + lo) % 2 ^ fb = lo ∧ (((be <<< fb) + lo) >>> fb) % 2 ^ eb = be := by
  rw [Nat.shiftLeft_eq, Nat.shiftRight_eq_div_pow]
  constructor
  · rw [Nat.add_comm, Nat.add_mul_mod_self_right, Nat.mod_eq_of_lt hlo]
  · rw [Nat.add_comm, Nat.add_mul_div_right _ _ (Nat.two_pow_pos fb), Nat.div_eq_of_lt hlo, Nat.zero_add,
      Nat.mod_eq_of_lt hbe]

/-- scaled value and parity of the assembled result -/
theorem sv_assembled (f : FloatFmt) (hfb : 1 ≤ f.fracBits) (E m : Nat)
    (hm0 : 2 ^ f.fracBits ≤ m) (hm1 : m ≤ 2 ^ (f.fracBits + 1))
    (hE : if m = 2 ^ (f.fracBits + 1) then E + 2 < 2 ^ f.expBits else E + 1 < 2 ^ f.expBits) :
    let r := if m = 2 ^ (f.fracBits + 1) then ((E + 2) <<< f.fracBits)
             else ((E + 1) <<< f.fracBits) + (m - 2 ^ f.fracBits)
    sv f r = m * 2 ^ E ∧ r % 2 = m % 2 ∧ 2 ^ f.fracBits ≤ r ∧
      r < (if m = 2 ^ (f.fracBits + 1) then E + 3 else E + 2) * 2 ^ f.fracBits := by
  intro r
  have hP : 2 ^ (f.fracBits + 1) = 2 * 2 ^ f.fracBits := by rw [Nat.pow_succ]; omega
  have hPeven : 2 ^ f.fracBits % 2 = 0 := by
    obtain ⟨k, hk⟩ : ∃ k, f.fracBits = k + 1 := ⟨f.fracBits - 1, by omega⟩
    rw [hk, Nat.pow_succ]; omega
  by_cases hc : m = 2 ^ (f.fracBits + 1)
  · have hr : r = ((E + 2) <<< f.fracBits) + 0 := by simp only [r, if_pos hc, Nat.add_zero]
    rw [if_pos hc] at hE
    obtain ⟨f1, f2⟩ := fields f.fracBits f.expBits (E + 2) 0 (Nat.two_pow_pos _) hE
    rw [← hr] at f1 f2
    refine ⟨?_, ?_, ?_, ?_⟩
    · unfold sv
      simp only [f1, f2]
      rw [if_neg (by omega), hc, Nat.zero_add, ← Nat.pow_add, ← Nat.pow_add]; congr 1; omega
    · rw [hr, Nat.shiftLeft_eq, hc, hP, Nat.add_zero, Nat.mul_mod, hPeven]; omega
    · rw [hr, Nat.shiftLeft_eq, Nat.add_zero]; exact Nat.le_mul_of_pos_left _ (by omega)
    · rw [hr, Nat.shiftLeft_eq, Nat.add_zero, if_pos hc]
      exact Nat.mul_lt_mul_of_pos_right (by omega) (Nat.two_pow_pos _)
  · have hr : r = ((E + 1) <<< f.fracBits) + (m - 2 ^ f.fracBits) := by simp only [r, if_neg hc]
    rw [if_neg hc] at hE
    obtain ⟨f1, f2⟩ := fields f.fracBits f.expBits (E + 1) (m - 2 ^ f.fracBits) (by omega) hE
    rw [← hr] at f1 f2
    refine ⟨?_, ?_, ?_, ?_⟩
    · unfold sv
      simp only [f1, f2]
      rw [if_neg (by omega)]
      have : m - 2 ^ f.fracBits + 2 ^ f.fracBits = m := by omega
      rw [this]; rfl
    · rw [hr, Nat.shiftLeft_eq, Nat.add_mod, Nat.mul_mod, hPeven]; omega
    · rw [hr, Nat.shiftLeft_eq]
      have : 2 ^ f.fracBits ≤ (E + 1) * 2 ^ f.fracBits := Nat.le_mul_of_pos_left _ (by omega)
      omega
    · rw [hr, Nat.shiftLeft_eq, if_neg hc]
      have : (E + 2) * 2 ^ f.fracBits = (E + 1) * 2 ^ f.fracBits + 2 ^ f.fracBits := by ring
      omega


/-! ### nearest, ties to even — on scaled values -/

theorem nearest_sv (f : FloatFmt) (den X E m : Nat) (hden : 0 < den)
    (hm : m = rhe X (den * 2 ^ E)) (hX : den * 2 ^ E * 2 ^ f.fracBits ≤ X) (b : Nat) :
    ((X : Int) - (m * 2 ^ E * den : Nat)).natAbs ≤ ((X : Int) - (sv f b * den : Nat)).natAbs ∧
    (((X : Int) - (m * 2 ^ E * den : Nat)).natAbs = ((X : Int) - (sv f b * den : Nat)).natAbs →
      sv f b ≠ m * 2 ^ E → m % 2 = 0) := by
  subst hm
  have hV : 0 < den * 2 ^ E := Nat.mul_pos hden (Nat.two_pow_pos _)
  have e1 : rhe X (den * 2 ^ E) * 2 ^ E * den = rhe X (den * 2 ^ E) * (den * 2 ^ E) := by ring
  rw [e1]
  rcases sv_multiple f b E with hlt | ⟨k, hk⟩
  · obtain ⟨n1, _⟩ := rhe_nearest X (den * 2 ^ E) (2 ^ f.fracBits) hV
    have hW : 2 ^ f.fracBits * (den * 2 ^ E) ≤ X := by rw [Nat.mul_comm]; exact hX
    have hY : sv f b * den < 2 ^ f.fracBits * (den * 2 ^ E) := by
      calc sv f b * den < 2 ^ (f.fracBits + E) * den := Nat.mul_lt_mul_of_pos_right hlt hden
        _ = 2 ^ f.fracBits * (den * 2 ^ E) := by ring
    constructor
    · omega
    · intro h; omega
  · have e2 : sv f b * den = k * (den * 2 ^ E) := by rw [hk]; ring
    rw [e2]
    obtain ⟨n1, n2⟩ := rhe_nearest X (den * 2 ^ E) k hV
    refine ⟨n1, fun h hne => n2 h ?_⟩
    intro hkm; apply hne; rw [hk, hkm]

/-! ### the exponent stays in the normal range -/

theorem e_lower (num den bs : Nat) (hnum : num ≠ 0) (hden : den ≠ 0) (hbs1 : 1 ≤ bs)
    (hlo : den ≤ num * 2 ^ (bs - 1)) : 1 - (bs : Int) ≤ floorLog2Ratio num den := by
  generalize he : floorLog2Ratio num den = e
  by_contra hcon
  have h := (floorLog2Ratio_spec num den 0 (-e).toNat hnum hden (by rw [he]; omega)).2
  have hb : 2 ^ bs ≤ 2 ^ (-e).toNat := Nat.pow_le_pow_right (by decide) (by omega)
  have h1 : num * 2 ^ bs ≤ num * 2 ^ (-e).toNat := Nat.mul_le_mul_left _ hb
  have h2 : num * 2 ^ bs = 2 * (num * 2 ^ (bs - 1)) := by
    obtain ⟨k, rfl⟩ : ∃ k, bs = k + 1 := ⟨bs - 1, by omega⟩
    rw [Nat.add_sub_cancel, Nat.pow_succ]; ring
  rw [Nat.zero_add, Nat.pow_one] at h
  omega

theorem e_upper (num den bs fb : Nat) (hnum : num ≠ 0) (hden : den ≠ 0)
    (hhi : num * 2 ^ (fb + 2) < den * (2 ^ (fb + 2) - 1) * 2 ^ (bs + 1)) :
    floorLog2Ratio num den ≤ (bs : Int) := by
  generalize he : floorLog2Ratio num den = e
  by_contra hcon
  have h := (floorLog2Ratio_spec num den e.toNat 0 hnum hden (by rw [he]; omega)).1
  rw [Nat.pow_zero, Nat.mul_one] at h
  have hb : 2 ^ (bs + 1) ≤ 2 ^ e.toNat := Nat.pow_le_pow_right (by decide) (by omega)
  have h1 : den * 2 ^ (bs + 1) ≤ num := Nat.le_trans (Nat.mul_le_mul_left _ hb) h
  have h2 : den * 2 ^ (bs + 1) * 2 ^ (fb + 2) ≤ num * 2 ^ (fb + 2) := Nat.mul_le_mul_right _ h1
  have h3 : den * (2 ^ (fb + 2) - 1) * 2 ^ (bs + 1) ≤ den * 2 ^ (bs + 1) * 2 ^ (fb + 2) := by
    rw [Nat.mul_right_comm]
    exact Nat.mul_le_mul_left _ (Nat.sub_le _ _)
  omega

end Fpdec.FloatArith

namespace Fpdec
open Fpdec.Spec Fpdec.FloatArith

theorem bias_nat (f : FloatFmt) (heb : 2 ≤ f.expBits) :
    ∃ bs : Nat, f.bias = bs ∧ 1 ≤ bs ∧ 2 ^ f.expBits = 2 * bs + 2 := by
  obtain ⟨k, hk⟩ : ∃ k, f.expBits = k + 2 := ⟨f.expBits - 2, by omega⟩
  have h1 : (2 : Nat) ^ 1 ≤ 2 ^ (k + 1) := Nat.pow_le_pow_right (by decide) (by omega)
  refine ⟨2 ^ (k + 1) - 1, ?_, by omega, ?_⟩
  · unfold FloatFmt.bias
    rw [hk, show k + 2 - 1 = k + 1 by omega]
    have : ((2 ^ (k + 1) : Nat) : Int) = (2 : Int) ^ (k + 1) := by norm_cast
    omega
  · rw [hk, Nat.pow_succ]; omega

/-- SECONDARY GOAL.  For `num/den` in the normal range `2^(1-bias) ≤ num/den < 2^(bias+1)·(1 - 2^-(fracBits+2))` the pattern
    `rneBits f num den` is a finite normal pattern whose value (`decodeBits`) is at least as near to `num/den` as the value of
    *any* bit pattern `b` (in particular every finite positive one), and whenever a pattern with a different value is equally
    near, the chosen pattern has an even significand (last bit 0).  Distances are cross-multiplied:
    `|num/den - rn/rd| ≤ |num/den - yn/yd|  ⟺  |num·rd - rn·den|·yd ≤ |num·yd - yn·den|·rd`. -/
theorem rneBits_nearest (f : FloatFmt) (hfb : 1 ≤ f.fracBits) (heb : 2 ≤ f.expBits)
    (num den : Nat) (hnum : 0 < num) (hden : 0 < den)
    (hlo : den ≤ num * 2 ^ (f.bias - 1).toNat)
    (hhi : num * 2 ^ (f.fracBits + 2) < den * (2 ^ (f.fracBits + 2) - 1) * 2 ^ (f.bias + 1).toNat) :
    2 ^ f.fracBits ≤ rneBits f num den ∧ rneBits f num den < (2 ^ f.expBits - 1) * 2 ^ f.fracBits ∧
    ∀ b : Nat,
      let r := decodeBits f (rneBits f num den)
      let y := decodeBits f b
      ((num * r.2 : Nat) - (r.1 * den : Nat) : Int).natAbs * y.2
          ≤ ((num * y.2 : Nat) - (y.1 * den : Nat) : Int).natAbs * r.2 ∧
      (((num * r.2 : Nat) - (r.1 * den : Nat) : Int).natAbs * y.2
          = ((num * y.2 : Nat) - (y.1 * den : Nat) : Int).natAbs * r.2 →
        y.1 * r.2 ≠ r.1 * y.2 → rneBits f num den % 2 = 0) := by
  obtain ⟨bs, hbs, hbs1, hpow⟩ := bias_nat f heb
  have hnum' : num ≠ 0 := Nat.ne_of_gt hnum
  have hden' : den ≠ 0 := Nat.ne_of_gt hden
  rw [hbs] at hlo hhi
  rw [show ((bs : Int) - 1).toNat = bs - 1 by omega] at hlo
  rw [show ((bs : Int) + 1).toNat = bs + 1 by omega] at hhi
  have he0 := e_lower num den bs hnum' hden' hbs1 hlo
  have he1 := e_upper num den bs f.fracBits hnum' hden' hhi
  generalize he : floorLog2Ratio num den = e at he0 he1
  obtain ⟨E, hE⟩ : ∃ E : Nat, e = (E : Int) + 1 - bs := ⟨(e + bs - 1).toNat, by omega⟩
  have hEle : E + 1 ≤ 2 * bs := by omega
  generalize hG : bs + f.fracBits - 1 = G
  -- the significand
  have hm := spec_m_eq num den E G (e - f.fracBits) (by omega)
  obtain ⟨hXlo, hXhi⟩ := floorLog2Ratio_spec num den (E + f.fracBits) G hnum' hden' (by rw [he]; omega)
  have hV : 0 < den * 2 ^ E := Nat.mul_pos hden (Nat.two_pow_pos _)
  have hX : den * 2 ^ E * 2 ^ f.fracBits ≤ num * 2 ^ G := by
    rw [Nat.mul_assoc, ← Nat.pow_add]; exact hXlo
  have hX2 : num * 2 ^ G < den * 2 ^ E * 2 ^ (f.fracBits + 1) := by
    rw [Nat.mul_assoc, ← Nat.pow_add, ← Nat.add_assoc]; exact hXhi
  have hm0 := rhe_ge _ _ _ hV hX
  have hm1 := rhe_le _ _ _ hV hX2
  have hcarry : E + 1 = 2 * bs → rhe (num * 2 ^ G) (den * 2 ^ E) < 2 ^ (f.fracBits + 1) := by
    intro hEmax
    apply rhe_lt _ _ _ hV
    have hh := Nat.mul_lt_mul_of_pos_right hhi (Nat.two_pow_pos (bs - 1))
    have e1 : num * 2 ^ (f.fracBits + 2) * 2 ^ (bs - 1) = 2 * (2 * (num * 2 ^ G)) := by
      rw [← hG, Nat.mul_assoc, ← Nat.pow_add, show f.fracBits + 2 + (bs - 1) = (bs + f.fracBits - 1) + 2 by omega,
        Nat.pow_add]; ring
    have e2 : den * (2 ^ (f.fracBits + 2) - 1) * 2 ^ (bs + 1) * 2 ^ (bs - 1) =
        2 * (den * 2 ^ E * (2 * 2 ^ (f.fracBits + 1) - 1)) := by
      have : 2 ^ (bs + 1) * 2 ^ (bs - 1) = 2 * 2 ^ E := by
        rw [← Nat.pow_add, show bs + 1 + (bs - 1) = E + 1 by omega, Nat.pow_succ]; ring
      rw [Nat.mul_assoc, this, show 2 ^ (f.fracBits + 2) = 2 * 2 ^ (f.fracBits + 1) by rw [Nat.pow_succ]; ring]
      ring
    rw [e1, e2] at hh
    omega
  generalize hmdef : rhe (num * 2 ^ G) (den * 2 ^ E) = m at *
  -- the bits
  have hbits := rneBits_eq f num den e m he hm
  rw [hbs, show (e + (bs : Int) + 1).toNat = E + 2 by omega, show (e + (bs : Int)).toNat = E + 1 by omega] at hbits
  have hfit : if m = 2 ^ (f.fracBits + 1) then E + 2 < 2 ^ f.expBits else E + 1 < 2 ^ f.expBits := by
    split
    · have : E + 1 ≠ 2 * bs := fun h => by have := hcarry h; omega
      omega
    · omega
  obtain ⟨hsv, hpar, hr0, hr1⟩ := sv_assembled f hfb E m hm0 hm1 hfit
  rw [← hbits] at hsv hpar hr0 hr1
  refine ⟨hr0, ?_, ?_⟩
  · refine Nat.lt_of_lt_of_le hr1 (Nat.mul_le_mul_right _ ?_)
    split
    · have : E + 1 ≠ 2 * bs := fun h => by have := hcarry h; omega
      omega
    · omega
  · intro b
    obtain ⟨hrd, hrv⟩ := decode_sv f bs hbs hbs1 (rneBits f num den)
    obtain ⟨hyd, hyv⟩ := decode_sv f bs hbs hbs1 b
    obtain ⟨n1, n2⟩ := nearest_sv f den (num * 2 ^ G) E m hden hmdef.symm hX b
    rw [hG, hsv] at hrv
    rw [hG] at hyv
    generalize decodeBits f (rneBits f num den) = R at *
    generalize decodeBits f b = Y at *
    obtain ⟨rn, rd⟩ := R
    obtain ⟨yn, yd⟩ := Y
    simp only at *
    have hA : (((num * rd : Nat) : Int) - ((rn * den : Nat) : Int)) * ((2 ^ G : Nat) : Int) =
        (((num * 2 ^ G : Nat) : Int) - ((m * 2 ^ E * den : Nat) : Int)) * ((rd : Nat) : Int) := by
      have := congrArg (fun x : Nat => (x : Int)) hrv
      push_cast at this ⊢
      linear_combination (-(den : Int)) * this
    have hB : (((num * yd : Nat) : Int) - ((yn * den : Nat) : Int)) * ((2 ^ G : Nat) : Int) =
        (((num * 2 ^ G : Nat) : Int) - ((sv f b * den : Nat) : Int)) * ((yd : Nat) : Int) := by
      have := congrArg (fun x : Nat => (x : Int)) hyv
      push_cast at this ⊢
      linear_combination (-(den : Int)) * this
    have hA' := congrArg Int.natAbs hA
    have hB' := congrArg Int.natAbs hB
    rw [Int.natAbs_mul, Int.natAbs_mul, Int.natAbs_natCast, Int.natAbs_natCast] at hA' hB'
    generalize (((num * rd : Nat) : Int) - ((rn * den : Nat) : Int)).natAbs = a at *
    generalize (((num * yd : Nat) : Int) - ((yn * den : Nat) : Int)).natAbs = a' at *
    generalize (((num * 2 ^ G : Nat) : Int) - ((m * 2 ^ E * den : Nat) : Int)).natAbs = c at *
    generalize (((num * 2 ^ G : Nat) : Int) - ((sv f b * den : Nat) : Int)).natAbs = c' at *
    have hP := Nat.two_pow_pos G
    have chain1 : a * yd * 2 ^ G = c * (rd * yd) := by
      calc a * yd * 2 ^ G = (a * 2 ^ G) * yd := by ring
        _ = c * rd * yd := by rw [hA']
        _ = c * (rd * yd) := by ring
    have chain2 : a' * rd * 2 ^ G = c' * (rd * yd) := by
      calc a' * rd * 2 ^ G = (a' * 2 ^ G) * rd := by ring
        _ = c' * yd * rd := by rw [hB']
        _ = c' * (rd * yd) := by ring
    have hrdyd : 0 < rd * yd := Nat.mul_pos hrd hyd
    constructor
    · apply Nat.le_of_mul_le_mul_right _ hP
      rw [chain1, chain2]
      exact Nat.mul_le_mul_right _ n1
    · intro heq hne
      rw [hpar]
      apply n2
      · apply Nat.eq_of_mul_eq_mul_right hrdyd
        rw [← chain1, ← chain2, heq]
      · intro hsb
        apply hne
        apply Nat.eq_of_mul_eq_mul_right hP
        calc yn * rd * 2 ^ G = (yn * 2 ^ G) * rd := by ring
          _ = sv f b * yd * rd := by rw [hyv]
          _ = (m * 2 ^ E * rd) * yd := by rw [hsb]; ring
          _ = rn * 2 ^ G * yd := by rw [hrv]
          _ = rn * yd * 2 ^ G := by ring

/-- the hypotheses of `rneBits_nearest` hold for every non-zero `i128` coefficient (`> i128::MIN`) over `10^p`, `p ≤ 18`,
    for both formats: the values the conversion `Decimal → f64 / f32` is applied to are always in the normal range -/
theorem rneBits_nearest_dom (f : FloatFmt) (hf : f = FloatFmt.f64 ∨ f = FloatFmt.f32)
    (a : Int) (p : Nat) (ha : a ≠ 0) (ha0 : I128_MIN < a) (ha1 : a ≤ I128_MAX) (hp : p ≤ 18) :
    2 ^ f.fracBits ≤ rneBits f a.natAbs (10 ^ p) ∧
    rneBits f a.natAbs (10 ^ p) < (2 ^ f.expBits - 1) * 2 ^ f.fracBits ∧
    ∀ b : Nat,
      let r := decodeBits f (rneBits f a.natAbs (10 ^ p))
      let y := decodeBits f b
      ((a.natAbs * r.2 : Nat) - (r.1 * 10 ^ p : Nat) : Int).natAbs * y.2
          ≤ ((a.natAbs * y.2 : Nat) - (y.1 * 10 ^ p : Nat) : Int).natAbs * r.2 ∧
      (((a.natAbs * r.2 : Nat) - (r.1 * 10 ^ p : Nat) : Int).natAbs * y.2
          = ((a.natAbs * y.2 : Nat) - (y.1 * 10 ^ p : Nat) : Int).natAbs * r.2 →
        y.1 * r.2 ≠ r.1 * y.2 → rneBits f a.natAbs (10 ^ p) % 2 = 0) := by
  unfold I128_MIN at ha0
  unfold I128_MAX at ha1
  have hnum0 : 0 < a.natAbs := by omega
  have hnum1 : a.natAbs < 170141183460469231731687303715884105728 := by omega
  have hden0 : 0 < 10 ^ p := Nat.pow_pos (by decide)
  have hden1 : (10 : Nat) ^ p ≤ 10 ^ 18 := Nat.pow_le_pow_right (by decide) hp
  generalize a.natAbs = num at *
  generalize (10 : Nat) ^ p = den at *
  have hfb : 1 ≤ f.fracBits := by rcases hf with rfl | rfl <;> decide
  have heb : 2 ≤ f.expBits := by rcases hf with rfl | rfl <;> decide
  have hb : (f.bias - 1).toNat ≥ 126 := by rcases hf with rfl | rfl <;> decide
  have hb' : (f.bias + 1).toNat ≥ 128 := by rcases hf with rfl | rfl <;> decide
  refine rneBits_nearest f hfb heb num den hnum0 hden0 ?_ ?_
  · have h1 : 2 ^ 126 ≤ 2 ^ (f.bias - 1).toNat := Nat.pow_le_pow_right (by decide) hb
    have h2 : 2 ^ (f.bias - 1).toNat ≤ num * 2 ^ (f.bias - 1).toNat := Nat.le_mul_of_pos_left _ hnum0
    have h3 : (10 : Nat) ^ 18 ≤ 2 ^ 126 := by decide
    omega
  · have h1 : 2 ^ 128 ≤ 2 ^ (f.bias + 1).toNat := Nat.pow_le_pow_right (by decide) hb'
    generalize 2 ^ (f.bias + 1).toNat = B at *
    have hQ : 2 ≤ 2 ^ (f.fracBits + 2) := by
      have : 2 ^ 1 ≤ 2 ^ (f.fracBits + 2) := Nat.pow_le_pow_right (by decide) (by omega)
      omega
    generalize 2 ^ (f.fracBits + 2) = Q at *
    -- num·Q < 2^127·Q ≤ (Q-1)·2^128 ≤ den·(Q-1)·B
    have e1 : num * Q < 170141183460469231731687303715884105728 * Q :=
      Nat.mul_lt_mul_of_pos_right hnum1 (by omega)
    have e2 : (Q - 1) * 2 ^ 128 ≤ (Q - 1) * B := Nat.mul_le_mul_left _ h1
    have e3 : (Q - 1) * B ≤ den * ((Q - 1) * B) := Nat.le_mul_of_pos_left _ hden0
    have e4 : den * (Q - 1) * B = den * ((Q - 1) * B) := Nat.mul_assoc _ _ _
    have e5 : (Q - 1) * 2 ^ 128 = Q * 2 ^ 128 - 2 ^ 128 := by
      rw [Nat.sub_mul, Nat.one_mul]
    omega

end Fpdec
