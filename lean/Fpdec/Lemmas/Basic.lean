import Fpdec.Model.Decimal
import Fpdec.Spec.Arith

/-!
# Basic lemmas: the power table, fixed-width helpers, floor division, the rounding kernel

Everything here is about the *generated* constants (`Gen.POWERS_OF_10` …), so the statements are
re-checked against what the source says on every run.
-/

namespace Fpdec
open Fpdec.Model

/-! ## the table `POWERS_OF_10` -/

theorem pow10_table : ∀ n, n ≤ 38 → Gen.POWERS_OF_10[n]? = some ((10 : Int) ^ n) := by decide

theorem pow10_table_size : Gen.POWERS_OF_10.size = 39 := by decide

theorem checked_limit : Gen.CHECKED_TEN_POW_LIMIT = 38 := by decide
theorem max_nfrac : Gen.MAX_N_FRAC_DIGITS = 18 := by decide

theorem tenPow_ok (n : Nat) (h : n ≤ 38) : tenPow n = .ok ((10 : Int) ^ n) := by
  unfold tenPow; rw [pow10_table n h]

theorem tenPow_index (n : Nat) (h : 38 < n) : tenPow n = .panic .index := by
  unfold tenPow
  have : Gen.POWERS_OF_10[n]? = none := by
    apply Array.getElem?_eq_none
    rw [pow10_table_size]; omega
  rw [this]

theorem checkedTenPow_some (n : Nat) (h : n ≤ 38) : checkedTenPow n = some ((10 : Int) ^ n) := by
  unfold checkedTenPow
  rw [checked_limit]
  have : ¬ n > 38 := by omega
  simp only [this, if_false]
  exact pow10_table n h

theorem checkedTenPow_none (n : Nat) (h : 38 < n) : checkedTenPow n = none := by
  unfold checkedTenPow
  rw [checked_limit]
  simp [h]

/-! ## i128 helpers -/

theorem fitsI128_iff (x : Int) : fitsI128 x = true ↔ (I128_MIN ≤ x ∧ x ≤ I128_MAX) := by
  unfold fitsI128; simp

theorem spec_fits_eq (x : Int) : Spec.fits x = fitsI128 x := by
  have h : (2 : Int) ^ 127 = 170141183460469231731687303715884105728 := by decide
  unfold Spec.fits fitsI128 I128_MIN I128_MAX
  rw [h]; rfl

theorem checkedI128_some {x : Int} (h : fitsI128 x = true) : checkedI128 x = some x := by
  unfold checkedI128; simp [h]

theorem checkedI128_none {x : Int} (h : fitsI128 x = false) : checkedI128 x = none := by
  unfold checkedI128; simp [h]

theorem plainI128_ok (prof : Profile) {x : Int} (h : fitsI128 x = true) : plainI128 prof x = .ok x := by
  unfold plainI128; simp [h]

theorem pow10_pos (n : Nat) : (0 : Int) < (10 : Int) ^ n := Int.pow_pos (by decide)

theorem pow10_mono {j k : Nat} (h : j ≤ k) : (10 : Int) ^ j ≤ (10 : Int) ^ k := by
  rcases Nat.lt_or_eq_of_le h with h | h
  · exact Int.le_of_lt (Int.pow_lt_pow_of_lt (by decide) h)
  · subst h; exact Int.le_refl _

/-- `checked_mul_pow_ten` -/
theorem checkedMulPowTen_eq (v : Int) (n : Nat) (h : n ≤ 38) :
    checkedMulPowTen v n = checkedI128 (v * (10 : Int) ^ n) := by
  unfold checkedMulPowTen
  rw [checkedTenPow_some n h]
  rfl

/-- `mul_pow_ten` -/
theorem mulPowTen_eq (v : Int) (n : Nat) (h : n ≤ 38) :
    mulPowTen v n = Outcome.ofOption .overflow (checkedI128 (v * (10 : Int) ^ n)) := by
  unfold mulPowTen
  rw [tenPow_ok n h]
  rfl

end Fpdec
