import Fpdec.Lemmas.Dom

/-!
# The integer rounding kernel: `i128_div_mod_floor`, `round_quot`, `i128_div_rounded`

`roundQuot` applied to the floor quotient and remainder of `n / d` is `Spec.specRound` — for all
eight modes, every `n` and every `d > 0` — and `i128_div_rounded` is `Spec.specRoundQ` for every
non-zero divisor, in every build profile.
-/

namespace Fpdec
open Fpdec.Model

/-- `tmod`/`%` agree on divisibility -/
theorem tmod_zero_iff (x k : Int) : x.tmod k = 0 ↔ x % k = 0 := by
  rw [← Int.dvd_iff_tmod_eq_zero, ← Int.dvd_iff_emod_eq_zero]

theorem wrapU128_small {x : Nat} (h : x < U128_MOD) : wrapU128 x = x := by
  unfold wrapU128 U128_MOD at *; exact Nat.mod_eq_of_lt h

/-- `round_quot` on the floor quotient/remainder of `n / d`, `0 < d ≤ 2^127` (`2^127 = |i128::MIN|` included), is the spec rounding
    (as far as the i128 range allows: `checked_add(1)`) -/
theorem roundQuot_spec (tm m : Mode) (n d : Int) (hd : 0 < d) (hdu : d ≤ I128_MAX + 1)
    (hq : fitsI128 (n / d) = true) :
    roundQuot tm (n / d) (n % d).toNat d.toNat (some m) = checkedI128 (Spec.specRound m n d) := by
  have h1 := Int.emod_nonneg n (Int.ne_of_gt hd)
  have h2 := Int.emod_lt_of_pos n hd
  have h3 := Int.mul_ediv_add_emod n d
  have hq' : checkedI128 (n / d) = some (n / d) := checkedI128_some hq
  unfold I128_MAX at hdu
  unfold roundQuot Spec.specRound
  simp only []
  by_cases hr : n % d = 0
  · simp [hr, hq']
  · have hr' : (n % d).toNat ≠ 0 := by omega
    simp only [hr, hr', if_false]
    have hn : n ≥ 0 ↔ n / d ≥ 0 := by
      constructor
      · intro h; exact Int.ediv_nonneg h (Int.le_of_lt hd)
      · intro h
        have : d * (n / d) ≥ 0 := Int.mul_nonneg (Int.le_of_lt hd) h
        omega
    have t5 := tmod_zero_iff (n / d) 5
    have t5' := tmod_zero_iff (n / d + 1) 5
    have t2 := tmod_zero_iff (n / d) 2
    have e1 : ((n % d).toNat : Int) = n % d := Int.toNat_of_nonneg h1
    have e2 : ((d.toNat : Nat) : Int) = d := Int.toNat_of_nonneg (Int.le_of_lt hd)
    have hsmall : (n % d).toNat <<< 1 < U128_MOD := by
      rw [Nat.shiftLeft_eq]; unfold U128_MOD; omega
    have hw : wrapU128 ((n % d).toNat <<< 1) = 2 * (n % d).toNat := by
      rw [wrapU128_small hsmall, Nat.shiftLeft_eq]; omega
    have c1 : (2 * (n % d).toNat > d.toNat) ↔ 2 * (n % d) > d := by omega
    have c2 : (2 * (n % d).toNat = d.toNat) ↔ 2 * (n % d) = d := by omega
    rw [hw]
    cases m <;> simp only [c1, c2, t5, t5', t2, Ne, hq'] <;> clear t5 t5' t2 hsmall hw c1 c2 <;> (repeat' split) <;>
      first | rfl | exact hq'.symm | (exfalso; omega)

/-- floor division never has a larger magnitude than the dividend (positive divisor) -/
theorem ediv_ge_of_neg {x y : Int} (hx : x ≤ 0) (hy : 0 < y) : x ≤ x / y := by
  apply Int.le_ediv_of_mul_le hy
  have : x * y ≤ x * 1 := Int.mul_le_mul_of_nonpos_left hx (by omega)
  omega

/-- `i128_div_mod_floor(x, y)` for a positive divisor is floor division, in every profile -/
theorem i128DivModFloor_pos (prof : Profile) (x y : Int) (hx : fitsI128 x = true) (hy0 : 0 < y)
    (hy : y ≤ I128_MAX) : i128DivModFloor prof x y = .ok (x / y, x % y) := by
  have h1 := Int.emod_nonneg x (Int.ne_of_gt hy0)
  have h2 := Int.emod_lt_of_pos x hy0
  have h3 := Int.mul_ediv_add_emod x y
  rw [fitsI128_iff] at hx
  have hne : y ≠ 0 := Int.ne_of_gt hy0
  have hm1 : ¬ (x = I128_MIN ∧ y = -1) := by omega
  unfold i128DivModFloor divI128 remI128
  simp only [hne, if_false, hm1, Outcome.bind_ok]
  unfold I128_MIN I128_MAX at *
  rw [Int.tdiv_eq_ediv, Int.tmod_eq_emod]
  have hs : y.sign = 1 := Int.sign_eq_one_of_pos hy0
  have hab : (y.natAbs : Int) = y := Int.natAbs_of_nonneg (Int.le_of_lt hy0)
  have hdvd : y ∣ x ↔ x % y = 0 := Int.dvd_iff_emod_eq_zero
  have hqlo : -170141183460469231731687303715884105728 ≤ x / y := by
    by_cases hxn : 0 ≤ x
    · have := Int.ediv_nonneg hxn (Int.le_of_lt hy0); omega
    · have := ediv_ge_of_neg (x := x) (by omega) hy0
      omega
  by_cases hc : 0 ≤ x ∨ y ∣ x
  · have hcond : ¬ ((x % y > 0 ∧ y < 0) ∨ (x % y < 0 ∧ y > 0)) := by omega
    simp [hc, hcond]
  · simp only [hc, if_false, hs, hab]
    have hr0 : x % y ≠ 0 := by
      intro h; exact hc (Or.inr (hdvd.mpr h))
    have hcond : (x % y - y > 0 ∧ y < 0) ∨ (x % y - y < 0 ∧ y > 0) := by omega
    simp only [hcond, if_true]
    have hneg : x / y < 0 := Int.ediv_neg_of_neg_of_pos (by omega) hy0
    have f1 : fitsI128 (x / y + 1 - 1) = true := by rw [fitsI128_iff]; unfold I128_MIN I128_MAX; omega
    have f2 : fitsI128 (x % y - y + y) = true := by rw [fitsI128_iff]; unfold I128_MIN I128_MAX; omega
    simp only [plainI128_ok prof f1, plainI128_ok prof f2, Outcome.bind_ok, Outcome.pure_eq]
    congr 2 <;> omega

/-- `i128_div_mod_floor(x, y)` for a negative divisor: the floor quotient of `x / y = (-x) / (-y)`, the remainder has the sign
    of the divisor -/
theorem i128DivModFloor_neg (prof : Profile) (x y : Int) (hx : I128_MIN < x ∧ x ≤ I128_MAX) (hy0 : y < 0)
    (hy : I128_MIN < y) : i128DivModFloor prof x y = .ok ((-x) / (-y), -((-x) % (-y))) := by
  have hpos := i128DivModFloor_pos prof (-x) (-y) (by rw [fitsI128_iff]; unfold I128_MIN I128_MAX at *; omega) (by omega)
    (by unfold I128_MIN I128_MAX at *; omega)
  have e1 : x.tdiv y = (-x).tdiv (-y) := (Int.neg_tdiv_neg x y).symm
  have e2 : x.tmod y = -((-x).tmod (-y)) := by rw [Int.tmod_neg, Int.neg_tmod, Int.neg_neg]
  have hne : y ≠ 0 := by omega
  have hne' : -y ≠ 0 := by omega
  have hm1 : ¬ (x = I128_MIN ∧ y = -1) := by omega
  have hm1' : ¬ (-x = I128_MIN ∧ -y = -1) := by unfold I128_MIN at *; omega
  unfold i128DivModFloor divI128 remI128 at hpos ⊢
  simp only [hne, hne', if_false, hm1, hm1', Outcome.bind_ok] at hpos ⊢
  rw [e1, e2]
  have hb1 := Int.tmod_lt_of_pos (-x) (show 0 < -y by omega)
  have hb2 := Int.lt_tmod_of_pos (-x) (show 0 < -y by omega)
  generalize (-x).tdiv (-y) = q0 at hpos ⊢
  generalize (-x).tmod (-y) = r0 at hpos hb1 hb2 ⊢
  by_cases hc : (r0 > 0 ∧ -y < 0) ∨ (r0 < 0 ∧ -y > 0)
  · have hc' : (-r0 > 0 ∧ y < 0) ∨ (-r0 < 0 ∧ y > 0) := by omega
    simp only [hc, hc', if_true] at hpos ⊢
    cases hq : plainI128 prof (q0 - 1) with
    | panic k => rw [hq] at hpos; simp [Outcome.bind_panic] at hpos
    | ok q1 =>
      rw [hq] at hpos
      simp only [Outcome.bind_ok] at hpos ⊢
      cases hr : plainI128 prof (r0 + -y) with
      | panic k => rw [hr] at hpos; simp [Outcome.bind_panic] at hpos
      | ok r1 =>
        rw [hr] at hpos
        simp only [Outcome.bind_ok, Outcome.pure_eq] at hpos
        injection hpos with hpos
        injection hpos with hq1 hr1
        -- r1 = r0 - y is the positive-divisor remainder; its negation fits
        have hr1v : r1 = r0 + -y := by
          unfold plainI128 at hr
          by_cases hf : fitsI128 (r0 + -y) = true
          · simp [hf] at hr; exact hr.symm
          · exfalso
            rw [fitsI128_iff] at hf; unfold I128_MIN I128_MAX at *
            omega
        have hfit : fitsI128 (-r0 + y) = true := by
          rw [fitsI128_iff]; unfold I128_MIN I128_MAX at *; omega
        rw [plainI128_ok prof hfit]
        simp only [Outcome.bind_ok, Outcome.pure_eq]
        congr 2
        · omega
  · have hc' : ¬ ((-r0 > 0 ∧ y < 0) ∨ (-r0 < 0 ∧ y > 0)) := by omega
    simp only [hc, hc', if_false, Outcome.pure_eq] at hpos ⊢
    injection hpos with hpos
    injection hpos with hq1 hr1
    rw [hq1, hr1]

/-- `i128_div_mod_floor(x, i128::MIN)`: the quotient is `-1` for a positive and `0` for a non-positive dividend -/
theorem i128DivModFloor_min (prof : Profile) (x : Int) (hx : I128_MIN < x ∧ x ≤ I128_MAX) :
    i128DivModFloor prof x I128_MIN =
      .ok ((-x) / 170141183460469231731687303715884105728, -((-x) % 170141183460469231731687303715884105728)) := by
  unfold I128_MIN I128_MAX at hx
  have hD : (0 : Int) < 170141183460469231731687303715884105728 := by decide
  have e0 : I128_MIN = -170141183460469231731687303715884105728 := rfl
  have hq : x.tdiv I128_MIN = 0 := by
    rw [e0, Int.tdiv_neg]
    by_cases h0 : 0 ≤ x
    · rw [Int.tdiv_eq_zero_of_lt h0 (by omega)]; rfl
    · have : x = -(-x) := by omega
      rw [this, Int.neg_tdiv, Int.tdiv_eq_zero_of_lt (by omega) (by omega)]; rfl
  have hr : x.tmod I128_MIN = x := by
    rw [e0, Int.tmod_neg]
    by_cases h0 : 0 ≤ x
    · exact Int.tmod_eq_of_lt h0 (by omega)
    · have : x = -(-x) := by omega
      rw [this, Int.neg_tmod, Int.tmod_eq_of_lt (by omega) (by omega)]
  have hne : I128_MIN ≠ 0 := by decide
  have hm1 : ¬ (x = I128_MIN ∧ I128_MIN = -1) := by intro h; exact absurd h.2 (by decide)
  unfold i128DivModFloor divI128 remI128
  simp only [hne, if_false, hm1, Outcome.bind_ok, hq, hr]
  have hneg : I128_MIN < 0 := by decide
  by_cases hp : x > 0
  · have hc : (x > 0 ∧ I128_MIN < 0) ∨ (x < 0 ∧ I128_MIN > 0) := Or.inl ⟨hp, hneg⟩
    simp only [hc, if_true]
    have f1 : fitsI128 ((0 : Int) - 1) = true := by decide
    have f2 : fitsI128 (x + I128_MIN) = true := by rw [fitsI128_iff]; unfold I128_MIN I128_MAX; omega
    rw [plainI128_ok prof f1, Outcome.bind_ok, plainI128_ok prof f2, Outcome.bind_ok, Outcome.pure_eq, e0]
    congr 2
    · omega
    · omega
  · have hc : ¬ ((x > 0 ∧ I128_MIN < 0) ∨ (x < 0 ∧ I128_MIN > 0)) := by
      intro h; rcases h with h | h
      · exact hp h.1
      · exact absurd h.2 (by decide)
    simp only [hc, if_false, Outcome.pure_eq]
    congr 2
    · omega
    · omega

/-- floor division by any negative divisor, `i128::MIN` included -/
theorem i128DivModFloor_neg' (prof : Profile) (x y : Int) (hx : I128_MIN < x ∧ x ≤ I128_MAX) (hy0 : y < 0)
    (hy : I128_MIN ≤ y) : i128DivModFloor prof x y = .ok ((-x) / (-y), -((-x) % (-y))) := by
  by_cases h : y = I128_MIN
  · subst h
    have e : -I128_MIN = 170141183460469231731687303715884105728 := by decide
    rw [e]
    exact i128DivModFloor_min prof x hx
  · exact i128DivModFloor_neg prof x y hx hy0 (by omega)

theorem roundQuot_none (tm : Mode) (q : Int) (r d : Nat) :
    roundQuot tm q r d none = roundQuot tm q r d (some tm) := by
  unfold roundQuot; rfl

theorem pow2_128 : (2 : Int) ^ 128 = 340282366920938463463374607431768211456 := by decide
theorem pow2_127 : (2 : Int) ^ 127 = 170141183460469231731687303715884105728 := by decide

/-- `x as u128` for a non-negative i128 -/
theorem cast_u128_nonneg {x : Int} (h0 : 0 ≤ x) (h1 : x ≤ I128_MAX) : IntTy.u128.cast x = x := by
  unfold IntTy.cast IntTy.wrap IntTy.u128
  simp only [Bool.false_eq_true, if_false]
  rw [pow2_128]
  unfold I128_MAX at h1
  exact Int.emod_eq_of_lt h0 (by omega)

/-- the rounded quotient of in-range operands is in range: `quot + 1` cannot overflow -/
theorem specRound_fits (m : Mode) (n d : Int) (hn : I128_MIN ≤ n ∧ n ≤ I128_MAX) (hd : 0 < d) :
    fitsI128 (Spec.specRound m n d) = true := by
  have h1 := Int.emod_nonneg n (Int.ne_of_gt hd)
  have h2 := Int.emod_lt_of_pos n hd
  have h3 := Int.mul_ediv_add_emod n d
  unfold I128_MIN I128_MAX at hn
  rw [fitsI128_iff]; unfold I128_MIN I128_MAX
  have hlo : -170141183460469231731687303715884105728 ≤ n / d := by
    by_cases hxn : 0 ≤ n
    · have := Int.ediv_nonneg hxn (Int.le_of_lt hd); omega
    · have := ediv_ge_of_neg (x := n) (by omega) hd; omega
  have hhi : n / d ≤ 170141183460469231731687303715884105727 := by
    by_cases hxn : 0 ≤ n
    · have := Int.ediv_le_self d hxn; omega
    · have := Int.ediv_neg_of_neg_of_pos (show n < 0 by omega) hd; omega
  unfold Spec.specRound
  simp only []
  by_cases hr : n % d = 0
  · simp only [hr, if_true]; omega
  · simp only [hr, if_false]
    -- remainder non-zero ⇒ d ≥ 2 ⇒ the quotient is far from the edge
    have hd2 : 2 ≤ d := by omega
    have hq1 : n / d + 1 ≤ 170141183460469231731687303715884105727 := by
      by_cases hxn : 0 ≤ n
      · have hq0 := Int.ediv_nonneg hxn (Int.le_of_lt hd)
        have : 2 * (n / d) ≤ d * (n / d) := Int.mul_le_mul_of_nonneg_right hd2 hq0
        omega
      · have := Int.ediv_neg_of_neg_of_pos (show n < 0 by omega) hd; omega
    cases m <;> simp only [] <;> (repeat' split) <;> omega

/-- `i128_div_rounded` for a positive divisor -/
theorem divRoundedTail (prof : Profile) (tm : Mode) (mode : Option Mode) (n d : Int)
    (hn : I128_MIN ≤ n ∧ n ≤ I128_MAX) (hd : 0 < d) (hdu : d ≤ I128_MAX) :
    (do let (quot, rem) ← i128DivModFloor prof n d
        match roundQuot tm quot rem.natAbs d.natAbs mode with
        | some q => pure q
        | none => Outcome.panic PanicKind.unwrap) = Outcome.ok (Spec.specRound (mode.getD tm) n d) := by
  have hnf : fitsI128 n = true := by rw [fitsI128_iff]; omega
  have h1 := Int.emod_nonneg n (Int.ne_of_gt hd)
  have h2 := Int.emod_lt_of_pos n hd
  rw [i128DivModFloor_pos prof n d hnf hd hdu]
  simp only [Outcome.bind_ok]
  have ea : (n % d).natAbs = (n % d).toNat := by omega
  have eb : d.natAbs = d.toNat := by omega
  rw [ea, eb]
  have hsf := specRound_fits (mode.getD tm) n d hn hd
  have hqf : fitsI128 (n / d) = true := by
    have h3 := Int.mul_ediv_add_emod n d
    rw [fitsI128_iff]; unfold I128_MIN I128_MAX at *
    constructor
    · by_cases hxn : 0 ≤ n
      · have := Int.ediv_nonneg hxn (Int.le_of_lt hd); omega
      · have := ediv_ge_of_neg (x := n) (by omega) hd; omega
    · by_cases hxn : 0 ≤ n
      · have := Int.ediv_le_self d hxn; omega
      · have := Int.ediv_neg_of_neg_of_pos (show n < 0 by omega) hd; omega
  cases mode with
  | none =>
    have hsf' : fitsI128 (Spec.specRound tm n d) = true := hsf
    rw [roundQuot_none, roundQuot_spec tm tm n d hd (by omega) hqf, checkedI128_some hsf']
    rfl
  | some m =>
    have hsf' : fitsI128 (Spec.specRound m n d) = true := hsf
    rw [roundQuot_spec tm m n d hd (by omega) hqf, checkedI128_some hsf']
    rfl

/-- `i128_div_rounded(n, d, mode)` for a positive divisor: any i128 dividend (including `i128::MIN`) -/
theorem i128DivRounded_pos (prof : Profile) (tm : Mode) (mode : Option Mode) (n d : Int)
    (hn : fitsI128 n = true) (hd : 0 < d) (hdu : d ≤ I128_MAX) :
    i128DivRounded prof tm n d mode = .ok (Spec.specRound (mode.getD tm) n d) := by
  rw [fitsI128_iff] at hn
  unfold i128DivRounded
  exact divRoundedTail prof tm mode n d hn hd hdu

/-- `i128_div_rounded(n, d, mode)` is the spec rounding of `n/d` for every non-zero divisor — **including `i128::MIN`** —, every mode,
    every profile; it never panics on in-range operands (after the D13 repair no operand is negated: the floor division by the
    signed divisor leaves a remainder with the divisor's sign, and `|rem| / |divisor|` is the fraction cut off) -/
theorem i128DivRounded_min (prof : Profile) (tm : Mode) (mode : Option Mode) (n : Int)
    (hn : I128_MIN < n ∧ n ≤ I128_MAX) :
    i128DivRounded prof tm n I128_MIN mode = .ok (Spec.specRoundQ (mode.getD tm) n I128_MIN) := by
  have hD : (0 : Int) < 170141183460469231731687303715884105728 := by decide
  have hneg : I128_MIN < 0 := by decide
  have e0 : -I128_MIN = 170141183460469231731687303715884105728 := by decide
  unfold Spec.specRoundQ
  rw [if_pos hneg, e0]
  unfold i128DivRounded
  rw [i128DivModFloor_min prof n hn]
  simp only [Outcome.bind_ok]
  have ea : (-(-n % 170141183460469231731687303715884105728)).natAbs = (-n % 170141183460469231731687303715884105728).toNat := by
    have h1 := Int.emod_nonneg (-n) (Int.ne_of_gt hD); omega
  have eb : I128_MIN.natAbs = (170141183460469231731687303715884105728 : Int).toNat := by decide
  rw [ea, eb]
  unfold I128_MIN I128_MAX at hn
  have hqf : fitsI128 (-n / 170141183460469231731687303715884105728) = true := by
    rw [fitsI128_iff]; unfold I128_MIN I128_MAX; omega
  have hsf : ∀ m : Mode, fitsI128 (Spec.specRound m (-n) 170141183460469231731687303715884105728) = true := by
    intro m
    rw [fitsI128_iff]; unfold I128_MIN I128_MAX
    unfold Spec.specRound
    simp only []
    cases m <;> simp only [] <;> (repeat' split) <;> omega
  cases mode with
  | none =>
    rw [roundQuot_none, roundQuot_spec tm tm (-n) _ hD (by unfold I128_MAX; omega) hqf, checkedI128_some (hsf tm)]
    rfl
  | some m =>
    rw [roundQuot_spec tm m (-n) _ hD (by unfold I128_MAX; omega) hqf, checkedI128_some (hsf m)]
    rfl

theorem i128DivRounded_spec (prof : Profile) (tm : Mode) (mode : Option Mode) (n d : Int)
    (hn : I128_MIN < n ∧ n ≤ I128_MAX) (hd : I128_MIN ≤ d ∧ d ≤ I128_MAX) (hd0 : d ≠ 0) :
    i128DivRounded prof tm n d mode = .ok (Spec.specRoundQ (mode.getD tm) n d) := by
  by_cases hmin : d = I128_MIN
  · subst hmin; exact i128DivRounded_min prof tm mode n hn
  have hd : I128_MIN < d ∧ d ≤ I128_MAX := ⟨by omega, hd.2⟩
  unfold Spec.specRoundQ
  by_cases hneg : d < 0
  · rw [if_pos hneg]
    unfold i128DivRounded
    rw [i128DivModFloor_neg prof n d hn hneg hd.1]
    simp only [Outcome.bind_ok]
    have hpos := divRoundedTail prof tm mode (-n) (-d) (by unfold I128_MIN I128_MAX at *; omega) (by omega)
      (by unfold I128_MIN I128_MAX at *; omega)
    rw [i128DivModFloor_pos prof (-n) (-d) (by rw [fitsI128_iff]; unfold I128_MIN I128_MAX at *; omega) (by omega)
      (by unfold I128_MIN I128_MAX at *; omega)] at hpos
    simp only [Outcome.bind_ok] at hpos
    have ea : (-(-n % -d)).natAbs = (-n % -d).natAbs := Int.natAbs_neg _
    have eb : d.natAbs = (-d).natAbs := (Int.natAbs_neg d).symm
    rw [ea, eb]
    exact hpos
  · rw [if_neg hneg]
    unfold i128DivRounded
    exact divRoundedTail prof tm mode n d (by unfold I128_MIN I128_MAX at *; omega) (by omega) (by unfold I128_MAX at *; omega)

/-! ### the dividend `i128::MIN` -/

/-- `i128_div_mod_floor(i128::MIN, y)` for a negative divisor other than `-1`: `tdiv`/`tmod` do not overflow, the remainder is
    `≤ 0`, so no floor adjustment happens -/
theorem i128DivModFloor_minx (prof : Profile) (y : Int) (hy0 : y < 0) (hy1 : y ≠ -1) :
    i128DivModFloor prof I128_MIN y = .ok ((-I128_MIN) / (-y), -((-I128_MIN) % (-y))) := by
  have e0 : -I128_MIN = 170141183460469231731687303715884105728 := by decide
  have hD : 0 < -y := by omega
  have e1 : I128_MIN.tdiv y = (-I128_MIN) / (-y) := by
    rw [← Int.neg_tdiv_neg, Int.tdiv_eq_ediv_of_nonneg (by rw [e0]; decide)]
  have e2 : I128_MIN.tmod y = -((-I128_MIN) % (-y)) := by
    have : I128_MIN.tmod y = -((-I128_MIN).tmod (-y)) := by rw [Int.tmod_neg, Int.neg_tmod, Int.neg_neg]
    rw [this, Int.tmod_eq_emod_of_nonneg (by rw [e0]; decide)]
  have hne : y ≠ 0 := by omega
  unfold i128DivModFloor divI128 remI128
  simp only [hne, hy1, and_false, if_false, Outcome.bind_ok, e1, e2]
  have h1 := Int.emod_nonneg (-I128_MIN) (Int.ne_of_gt hD)
  have hc : ¬ ((-(-I128_MIN % -y) > 0 ∧ y < 0) ∨ (-(-I128_MIN % -y) < 0 ∧ y > 0)) := by omega
  simp only [hc, if_false, Outcome.pure_eq]

/-- floor division by any negative divisor, any i128 dividend: everything except the pair `(i128::MIN, -1)`, on which `/` panics -/
theorem i128DivModFloor_neg_full (prof : Profile) (x y : Int) (hx : I128_MIN ≤ x ∧ x ≤ I128_MAX) (hy0 : y < 0)
    (hy : I128_MIN ≤ y) (hc : ¬ (x = I128_MIN ∧ y = -1)) :
    i128DivModFloor prof x y = .ok ((-x) / (-y), -((-x) % (-y))) := by
  by_cases h : x = I128_MIN
  · subst h
    exact i128DivModFloor_minx prof y hy0 (fun h1 => hc ⟨rfl, h1⟩)
  · exact i128DivModFloor_neg' prof x y ⟨by omega, hx.2⟩ hy0 hy

/-- the pair on which Rust's `/` overflows: `i128::MIN / -1` panics in every profile -/
theorem i128DivModFloor_min_neg_one (prof : Profile) : i128DivModFloor prof I128_MIN (-1) = .panic .arith := by
  unfold i128DivModFloor divI128
  simp

/-- the rounded quotient fits for a dividend up to `2^127 = |i128::MIN|` as long as that dividend is not divided by one -/
theorem specRound_fits_abs (m : Mode) (n d : Int) (hn : I128_MIN ≤ n ∧ n ≤ I128_MAX + 1) (hd : 0 < d)
    (hc : n = I128_MAX + 1 → 2 ≤ d) : fitsI128 (Spec.specRound m n d) = true := by
  by_cases hle : n ≤ I128_MAX
  · exact specRound_fits m n d ⟨hn.1, hle⟩ hd
  · have hn' : n = I128_MAX + 1 := by omega
    have hd2 := hc hn'
    have h1 := Int.emod_nonneg n (Int.ne_of_gt hd)
    have h2 := Int.emod_lt_of_pos n hd
    have h3 := Int.mul_ediv_add_emod n d
    have hq0 : 0 ≤ n / d := Int.ediv_nonneg (by unfold I128_MAX at hn'; omega) (Int.le_of_lt hd)
    have hq2 : 2 * (n / d) ≤ d * (n / d) := Int.mul_le_mul_of_nonneg_right hd2 hq0
    unfold I128_MAX at hn'
    rw [fitsI128_iff]; unfold I128_MIN I128_MAX
    unfold Spec.specRound
    simp only []
    cases m <;> simp only [] <;> (repeat' split) <;> omega

/-- `i128_div_rounded(i128::MIN, d, mode)` for every non-zero divisor except `-1` -/
theorem i128DivRounded_minx (prof : Profile) (tm : Mode) (mode : Option Mode) (d : Int)
    (hd : I128_MIN ≤ d ∧ d ≤ I128_MAX) (hd0 : d ≠ 0) (hd1 : d ≠ -1) :
    i128DivRounded prof tm I128_MIN d mode = .ok (Spec.specRoundQ (mode.getD tm) I128_MIN d) := by
  unfold Spec.specRoundQ
  by_cases hneg : d < 0
  · rw [if_pos hneg]
    have e0 : -I128_MIN = 170141183460469231731687303715884105728 := by decide
    have hD : 0 < -d := by omega
    have hD2 : 2 ≤ -d := by omega
    have hDu : -d ≤ I128_MAX + 1 := by unfold I128_MIN I128_MAX at *; omega
    unfold i128DivRounded
    rw [i128DivModFloor_minx prof d hneg hd1]
    simp only [Outcome.bind_ok]
    have h1 := Int.emod_nonneg (-I128_MIN) (Int.ne_of_gt hD)
    have ea : (-(-I128_MIN % -d)).natAbs = (-I128_MIN % -d).toNat := by omega
    have eb : d.natAbs = (-d).toNat := by omega
    rw [ea, eb]
    have hsf : ∀ m : Mode, fitsI128 (Spec.specRound m (-I128_MIN) (-d)) = true := fun m =>
      specRound_fits_abs m (-I128_MIN) (-d) (by rw [e0]; unfold I128_MIN I128_MAX; omega) hD (fun _ => hD2)
    have hqf : fitsI128 (-I128_MIN / -d) = true := by
      have h3 := Int.mul_ediv_add_emod (-I128_MIN) (-d)
      have hq0 : 0 ≤ -I128_MIN / -d := Int.ediv_nonneg (by rw [e0]; decide) (Int.le_of_lt hD)
      have hq2 : 2 * (-I128_MIN / -d) ≤ -d * (-I128_MIN / -d) := Int.mul_le_mul_of_nonneg_right hD2 hq0
      rw [fitsI128_iff]
      rw [e0] at h3 h1 hq0 hq2 ⊢
      unfold I128_MIN I128_MAX; omega
    cases mode with
    | none =>
      rw [roundQuot_none, roundQuot_spec tm tm _ _ hD hDu hqf, checkedI128_some (hsf tm)]
      rfl
    | some m =>
      rw [roundQuot_spec tm m _ _ hD hDu hqf, checkedI128_some (hsf m)]
      rfl
  · rw [if_neg hneg]
    exact i128DivRounded_pos prof tm mode I128_MIN d (by decide) (by omega) hd.2

/-- `i128_div_rounded(i128::MIN, -1, mode)` panics (`i128::MIN / -1` in `i128_div_mod_floor`), in every profile -/
theorem i128DivRounded_min_neg_one (prof : Profile) (tm : Mode) (mode : Option Mode) :
    i128DivRounded prof tm I128_MIN (-1) mode = .panic .arith := by
  unfold i128DivRounded
  rw [i128DivModFloor_min_neg_one]
  rfl

/-- `i128DivRounded_spec` for the whole i128 range of the dividend: every pair of in-range operands with a non-zero divisor except
    `(i128::MIN, -1)`, whose exact quotient `2^127` is not an i128 -/
theorem i128DivRounded_spec_full (prof : Profile) (tm : Mode) (mode : Option Mode) (n d : Int)
    (hn : I128_MIN ≤ n ∧ n ≤ I128_MAX) (hd : I128_MIN ≤ d ∧ d ≤ I128_MAX) (hd0 : d ≠ 0) (hc : ¬ (n = I128_MIN ∧ d = -1)) :
    i128DivRounded prof tm n d mode = .ok (Spec.specRoundQ (mode.getD tm) n d) := by
  by_cases h : n = I128_MIN
  · subst h
    exact i128DivRounded_minx prof tm mode d hd hd0 (fun h1 => hc ⟨rfl, h1⟩)
  · exact i128DivRounded_spec prof tm mode n d ⟨by omega, hn.2⟩ hd hd0

end Fpdec
