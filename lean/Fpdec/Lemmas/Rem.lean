import Fpdec.Lemmas.RemAux

/-!
# C10 — Remainder satisfies the truncated-division identity exactly

Model (Fpdec/Model/Decimal.lean, mirror of /repo/src/binops/rem.rs and checked_rem.rs): `remLoop`, `remCore`, `remDecDec`, `remDecInt`,
`remIntDec`, `fract`, `opOfChecked`, `checkedOfChecked`, `eqOne`, `eqZero`.  Spec: `Spec.rem` (Spec/Arith.lean): with `m = max p q`,
`A = a·10^(m-p)`, `B = b·10^(m-q)` the result is `(A tmod B, m)`; the overflow signal is additionally allowed only when the dividend
has fewer fractional digits than the divisor and `A` does not fit an i128 (`Exp.valOrOvf`); a divisor equal to one gives the fractional
part of `x` in x's own scale.  `Spec.allowedOp` / `Spec.allowedChecked` (Spec/Allowed.lean), `outPair` / `outOptPair` (Lemmas/Dom.lean).
Key facts: `remI128 x y = ok (x.tmod y)` for `y ≠ 0` and not `(MIN, -1)`; when the *divisor* cannot be scaled (`p > q`, `|b|·10^(p-q)`
does not fit) the dividend is already the remainder because `|B| > 2^127 > |a|`; the digit loop `remLoop b k r` maintains
`r_j = (a·10^j) tmod b` (use `(x tmod b · 10) tmod b = (x·10) tmod b`), stops early only at remainder 0, and reports overflow only when
`|r|·10` leaves the i128 range.  (Auxiliary lemmas: Lemmas/RemAux.lean.)
-/

namespace Fpdec
open Fpdec.Model

/-- the core function `rem(a, p, b, q)` for a non-zero divisor -/
theorem remCore_spec (a : Int) (p : Nat) (b : Int) (q : Nat)
    (ha : I128_MIN ≤ a ∧ a ≤ I128_MAX) (hb : I128_MIN ≤ b ∧ b ≤ I128_MAX) (hb0 : b ≠ 0) (hp : p ≤ 18) (hq : q ≤ 18) :
    Spec.allowedChecked
      (let m := max p q
       let A := a * (10 : Int) ^ (m - p)
       let B := b * (10 : Int) ^ (m - q)
       if p < q ∧ !Spec.fits A then Spec.Exp.valOrOvf (A.tmod B) m else Spec.Exp.val (A.tmod B) m)
      (outOptPair (remCore a p b q)) = true := by
  have _ := hb
  unfold remCore
  dsimp only
  rcases Nat.lt_trichotomy p q with h | h | h
  · -- dividend has fewer fractional digits
    have hc : compare p q = .lt := Nat.compare_eq_lt.2 h
    have hm : max p q = q := by omega
    rw [hc, hm, Nat.sub_self, Int.pow_zero, Int.mul_one, spec_fits_eq]
    dsimp only
    rw [checkedMulPowTen_eq _ _ (by omega)]
    by_cases hf : fitsI128 (a * (10 : Int) ^ (q - p)) = true
    · rw [checkedI128_some hf]
      have hne : a * (10 : Int) ^ (q - p) ≠ I128_MIN := by
        have e : (10 : Int) ^ (q - p) = (10 : Int) ^ (q - p - 1) * 10 := by
          rw [← Int.pow_succ]; congr 1; omega
        rw [e, ← Int.mul_assoc]
        generalize a * (10 : Int) ^ (q - p - 1) = k
        unfold I128_MIN; omega
      simp [remI128_ok hb0 hne, hf, h, Spec.allowedChecked]
    · have hf' : fitsI128 (a * (10 : Int) ^ (q - p)) = false := by simpa using hf
      rw [checkedI128_none hf']
      dsimp only
      rw [wrappingRemI128_ok hb0, Outcome.bind_ok]
      rcases remLoop_spec b hb0 (q - p) a with hl | hl <;> rw [hl] <;>
        simp [hf', h, Spec.allowedChecked]
  · subst h
    have hc : compare p p = .eq := Nat.compare_eq_eq.2 rfl
    rw [hc]
    simp [wrappingRemI128_ok hb0, Spec.allowedChecked]
  · have hc : compare p q = .gt := Nat.compare_eq_gt.2 h
    have hm : max p q = p := by omega
    have hlt : ¬ p < q := by omega
    rw [hc, hm, Nat.sub_self, Int.pow_zero, Int.mul_one]
    dsimp only
    rw [checkedMulPowTen_eq _ _ (by omega)]
    by_cases hf : fitsI128 (b * (10 : Int) ^ (p - q)) = true
    · rw [checkedI128_some hf]
      have hB : b * (10 : Int) ^ (p - q) ≠ 0 := Int.mul_ne_zero hb0 (Int.ne_of_gt (pow10_pos _))
      have hB1 : b * (10 : Int) ^ (p - q) ≠ -1 := by
        have e : (10 : Int) ^ (p - q) = (10 : Int) ^ (p - q - 1) * 10 := by
          rw [← Int.pow_succ]; congr 1; omega
        rw [e, ← Int.mul_assoc]
        generalize b * (10 : Int) ^ (p - q - 1) = k
        omega
      simp [remI128_ok' hB hB1, hlt, Spec.allowedChecked]
    · have hf' : fitsI128 (b * (10 : Int) ^ (p - q)) = false := by simpa using hf
      rw [checkedI128_none hf']
      have hself : a.tmod (b * (10 : Int) ^ (p - q)) = a := by
        apply tmod_eq_self_of_natAbs_lt
        have := fitsI128_iff (b * (10 : Int) ^ (p - q))
        rw [hf'] at this
        simp at this
        -- the scaled divisor is a multiple of ten, so it is not `2^127` itself: `|B| > 2^127 ≥ |a|`
        have e : (10 : Int) ^ (p - q) = (10 : Int) ^ (p - q - 1) * 10 := by
          rw [← Int.pow_succ]; congr 1; omega
        rw [e, ← Int.mul_assoc] at this ⊢
        generalize b * (10 : Int) ^ (p - q - 1) = k at this ⊢
        unfold I128_MIN I128_MAX at *
        omega
      simp [hself, hlt, Spec.allowedChecked]

/-! ## the shortcuts -/

theorem eqOne_eq (y : Dec) (h : y.nfrac ≤ 18) : eqOne y = .ok (decide (y.coeff = (10 : Int) ^ y.nfrac)) := by
  unfold eqOne
  rw [tenPow_ok _ (by omega)]
  rfl

theorem fract_eq (x : Dec) (h : x.nfrac ≤ 18) :
    fract x = .ok (if x.nfrac = 0 then Dec.ZERO else ⟨x.coeff.tmod ((10 : Int) ^ x.nfrac), x.nfrac⟩) := by
  unfold fract
  split
  · next h0 => simp [h0]
  · next n hn =>
    have h1 : (10 : Int) ^ x.nfrac ≠ 0 := Int.ne_of_gt (pow10_pos _)
    have h2 : (10 : Int) ^ x.nfrac ≠ -1 := by have := pow10_pos x.nfrac; omega
    rw [tenPow_ok _ (by omega), Outcome.bind_ok, remI128_ok' h1 h2, if_neg (fun h0 => hn h0)]
    rfl

/-- the expectation of `remCore_spec` is what `Spec.rem` says away from the shortcuts -/
theorem spec_rem_generic (a : Int) (p : Nat) (b : Int) (q : Nat) (hb0 : b ≠ 0) (ha0 : a ≠ 0)
    (h1 : ¬ b = (10 : Int) ^ q) :
    Spec.rem a p b q =
      (let m := max p q
       let A := a * (10 : Int) ^ (m - p)
       let B := b * (10 : Int) ^ (m - q)
       if p < q ∧ !Spec.fits A then Spec.Exp.valOrOvf (A.tmod B) m else Spec.Exp.val (A.tmod B) m) := by
  unfold Spec.rem Spec.isOne
  simp [hb0, ha0, h1]

theorem spec_rem_one (a : Int) (p : Nat) (b : Int) (q : Nat) (hb0 : b ≠ 0) (ha0 : a ≠ 0)
    (h1 : b = (10 : Int) ^ q) :
    Spec.rem a p b q = if p = 0 then .val 0 0 else .val (a.tmod ((10 : Int) ^ p)) p := by
  subst h1
  unfold Spec.rem Spec.isOne
  simp [hb0, ha0]

/-- Decimal % Decimal after the zero-divisor test -/
theorem remDecDec_spec (x y : Dec) (hx : Dom x) (hy : Dom y) (hy0 : y.coeff ≠ 0) :
    Spec.allowedChecked (Spec.rem x.coeff x.nfrac y.coeff y.nfrac) (outOptPair (remDecDec x y)) = true := by
  obtain ⟨hx1, hx2, hx3⟩ := hx
  obtain ⟨hy1, hy2, hy3⟩ := hy
  unfold remDecDec
  by_cases hx0 : x.coeff = 0
  · simp [eqZero, hx0, Spec.rem, hy0, Spec.allowedChecked, Dec.ZERO]
  · have hz : eqZero x = false := by simp [eqZero, hx0]
    rw [hz, eqOne_eq y hy3]
    by_cases h1 : y.coeff = (10 : Int) ^ y.nfrac
    · rw [spec_rem_one _ _ _ _ hy0 hx0 h1, fract_eq x hx3]
      by_cases hp : x.nfrac = 0 <;> simp [h1, hp, Spec.allowedChecked, Dec.ZERO]
    · rw [spec_rem_generic _ _ _ _ hy0 hx0 h1]
      simp only [Bool.false_eq_true, if_false, Outcome.bind_ok, h1, decide_false]
      exact remCore_spec _ _ _ _ ⟨Int.le_of_lt hx1, hx2⟩ ⟨Int.le_of_lt hy1, hy2⟩ hy0 hx3 hy3

theorem spec_rem_shape (a : Int) (p : Nat) (b : Int) (q : Nat) (hb0 : b ≠ 0) :
    Spec.rem a p b q ≠ .divzero ∧ Spec.rem a p b q ≠ .none ∧ Spec.rem a p b q ≠ .nfrac := by
  unfold Spec.rem
  simp only [hb0, if_false]
  refine ⟨?_, ?_, ?_⟩ <;> (repeat' split) <;> simp

theorem opOfChecked_false (r : Outcome (Option Dec)) : opOfChecked false r = panicOnNone r := by
  unfold opOfChecked panicOnNone
  cases r with
  | panic k => rfl
  | ok o => cases o <;> rfl

/-- `x % y` (operator: panics on a zero divisor and on the permitted overflow) -/
theorem rem_spec (x y : Dec) (hx : Dom x) (hy : Dom y) :
    Spec.allowedOp (Spec.rem x.coeff x.nfrac y.coeff y.nfrac)
      (outPair (opOfChecked (eqZero y) (if eqZero y then .ok none else remDecDec x y))) = true := by
  by_cases hy0 : y.coeff = 0
  · simp [eqZero, hy0, Spec.rem, opOfChecked, Spec.allowedOp]
  · have hz : eqZero y = false := by simp [eqZero, hy0]
    rw [hz, opOfChecked_false]
    simp only [Bool.false_eq_true, if_false]
    obtain ⟨s1, s2, s3⟩ := spec_rem_shape x.coeff x.nfrac y.coeff y.nfrac hy0
    exact allowedOp_of_checked _ _ (remDecDec_spec x y hx hy hy0) s1 s2 s3

/-- `x.checked_rem(y)`: `None` for a zero divisor / the permitted overflow; never panics -/
theorem checked_rem_spec (x y : Dec) (hx : Dom x) (hy : Dom y) :
    Spec.allowedChecked (Spec.rem x.coeff x.nfrac y.coeff y.nfrac)
      (outOptPair (checkedOfChecked (eqZero y) (if eqZero y then .ok none else remDecDec x y))) = true := by
  by_cases hy0 : y.coeff = 0
  · simp [eqZero, hy0, Spec.rem, checkedOfChecked, Spec.allowedChecked]
  · have hz : eqZero y = false := by simp [eqZero, hy0]
    rw [hz]
    simp only [checkedOfChecked, Bool.false_eq_true, if_false]
    exact remDecDec_spec x y hx hy hy0

/-- Decimal % int: same as with `Decimal::from(i)` on the right (`i` any i128 value) -/
theorem rem_dec_int_spec (x : Dec) (i : Int) (hx : Dom x) (hi : I128_MIN ≤ i ∧ i ≤ I128_MAX) (hi0 : i ≠ 0) :
    Spec.allowedChecked (Spec.rem x.coeff x.nfrac i 0) (outOptPair (remDecInt x i)) = true := by
  obtain ⟨hx1, hx2, hx3⟩ := hx
  unfold remDecInt
  by_cases hx0 : x.coeff = 0
  · simp [eqZero, hx0, Spec.rem, hi0, Spec.allowedChecked, Dec.ZERO]
  · have hz : eqZero x = false := by simp [eqZero, hx0]
    rw [hz]
    by_cases h1 : i = 1
    · rw [spec_rem_one _ _ _ _ hi0 hx0 (by simpa using h1), fract_eq x hx3]
      by_cases hp : x.nfrac = 0 <;> simp [h1, hp, Spec.allowedChecked, Dec.ZERO]
    · rw [spec_rem_generic _ _ _ _ hi0 hx0 (by simpa using h1)]
      simp only [Bool.false_eq_true, if_false, h1]
      exact remCore_spec _ _ _ _ ⟨Int.le_of_lt hx1, hx2⟩ hi hi0 hx3 (by omega)

/-- int % Decimal: same as with `Decimal::from(i)` on the left -/
theorem rem_int_dec_spec (i : Int) (y : Dec) (hy : Dom y) (hi : I128_MIN ≤ i ∧ i ≤ I128_MAX) (hy0 : y.coeff ≠ 0) :
    Spec.allowedChecked (Spec.rem i 0 y.coeff y.nfrac) (outOptPair (remIntDec i y)) = true := by
  obtain ⟨hy1, hy2, hy3⟩ := hy
  unfold remIntDec
  by_cases hi0 : i = 0
  · simp [hi0, Spec.rem, hy0, Spec.allowedChecked, Dec.ZERO]
  · rw [eqOne_eq y hy3]
    by_cases h1 : y.coeff = (10 : Int) ^ y.nfrac
    · rw [spec_rem_one _ _ _ _ hy0 hi0 h1]
      simp [hi0, h1, Spec.allowedChecked, Dec.ZERO]
    · rw [spec_rem_generic _ _ _ _ hy0 hi0 h1]
      simp only [hi0, if_false, Outcome.bind_ok, h1, decide_false, Bool.false_eq_true]
      exact remCore_spec _ _ _ _ hi ⟨Int.le_of_lt hy1, hy2⟩ hy0 (by omega) hy3

/-- `tmod` is THE remainder of the statement: `A = B·t + r`, `|r| < |B|`, `r` zero or of the sign of `A` — and it is unique -/
theorem tmod_characterisation (A B r : Int) (hB : B ≠ 0) :
    r = A.tmod B ↔ (∃ t : Int, A = B * t + r) ∧ r.natAbs < B.natAbs ∧ (r = 0 ∨ (0 < r ∧ 0 < A) ∨ (r < 0 ∧ A < 0)) :=
  tmod_characterisation' A B r hB

end Fpdec
