import Fpdec.Lemmas.Rounding

/-!
# Rounding on top of a wide floor division

The 256-bit helpers return `Some (q, r)` with `q = ⌊N/d⌋` exactly when the *truncated* quotient magnitude
`|N| / d` fits an `i128`.  These lemmas relate that test to the representability of the rounded quotient.
-/

namespace Fpdec
open Fpdec.Model

/-- the rounded value is the floor or the floor plus one; it is the floor when the division is exact -/
theorem specRound_range (m : Mode) (n d : Int) (hd : 0 < d) :
    n / d ≤ Spec.specRound m n d ∧ Spec.specRound m n d ≤ n / d + 1 ∧ (n % d = 0 → Spec.specRound m n d = n / d) := by
  unfold Spec.specRound
  simp only []
  by_cases hr : n % d = 0
  · simp only [hr, if_true]
    refine ⟨Int.le_refl _, by omega, fun _ => trivial⟩
  · simp only [hr, if_false]
    refine ⟨?_, ?_, fun h => absurd h (by simp [hr])⟩ <;> (cases m <;> simp only [] <;> (repeat' split) <;> omega)

/-- truncated quotient magnitude versus floor quotient -/
theorem trunc_vs_floor (N d : Int) (hd : 0 < d) :
    (0 ≤ N → ((N.natAbs / d.natAbs : Nat) : Int) = N / d) ∧
    (N < 0 → N % d = 0 → ((N.natAbs / d.natAbs : Nat) : Int) = -(N / d)) ∧
    (N < 0 → N % d ≠ 0 → ((N.natAbs / d.natAbs : Nat) : Int) = -(N / d) - 1) := by
  have hdn : (d.natAbs : Int) = d := Int.natAbs_of_nonneg (Int.le_of_lt hd)
  have h1 := Int.emod_nonneg N (Int.ne_of_gt hd)
  have h2 := Int.emod_lt_of_pos N hd
  have h3 := Int.mul_ediv_add_emod N d
  refine ⟨?_, ?_, ?_⟩
  · intro h0
    have : (N.natAbs : Int) = N := Int.natAbs_of_nonneg h0
    rw [Int.natCast_ediv, this, hdn]
  · intro hneg hr
    have hN : (N.natAbs : Int) = -N := by omega
    rw [Int.natCast_ediv, hN, hdn]
    have h := (Int.ediv_emod_unique (a := -N) (b := d) (r := 0) (q := -(N / d)) hd).mpr
      ⟨by rw [Int.mul_neg]; omega, by omega, by omega⟩
    exact h.1
  · intro hneg hr
    have hN : (N.natAbs : Int) = -N := by omega
    rw [Int.natCast_ediv, hN, hdn]
    have h := (Int.ediv_emod_unique (a := -N) (b := d) (r := d - N % d) (q := -(N / d) - 1) hd).mpr
      ⟨by rw [Int.mul_sub, Int.mul_neg]; omega, by omega, by omega⟩
    exact h.1

/-- when the truncated quotient fits, so does the floor quotient -/
theorem floor_fits_of_trunc (N d : Int) (hd : 0 < d) (h : (N.natAbs / d.natAbs : Nat) ≤ I128_MAX.toNat) :
    fitsI128 (N / d) = true := by
  obtain ⟨t1, t2, t3⟩ := trunc_vs_floor N d hd
  have hM : ((I128_MAX.toNat : Nat) : Int) = I128_MAX := by unfold I128_MAX; rfl
  have h' : ((N.natAbs / d.natAbs : Nat) : Int) ≤ I128_MAX := by rw [← hM]; exact Int.ofNat_le.mpr h
  rw [fitsI128_iff]; unfold I128_MIN I128_MAX at *
  by_cases h0 : 0 ≤ N
  · have := t1 h0; have := Int.ediv_nonneg h0 (Int.le_of_lt hd); omega
  · have hneg := Int.ediv_neg_of_neg_of_pos (show N < 0 by omega) hd
    have h1 := Int.emod_nonneg N (Int.ne_of_gt hd)
    by_cases hr : N % d = 0
    · have := t2 (by omega) hr; omega
    · have := t3 (by omega) hr; omega

/-- when the truncated quotient does not fit, the rounded quotient is `≤ i128::MIN` or `> i128::MAX` -/
theorem round_unfit_of_trunc (m : Mode) (N d : Int) (hd : 0 < d) (h : ¬ (N.natAbs / d.natAbs : Nat) ≤ I128_MAX.toNat) :
    Spec.specRound m N d ≤ I128_MIN ∨ I128_MAX < Spec.specRound m N d := by
  obtain ⟨t1, t2, t3⟩ := trunc_vs_floor N d hd
  obtain ⟨r1, r2, r3⟩ := specRound_range m N d hd
  have hM : ((I128_MAX.toNat : Nat) : Int) = I128_MAX := by unfold I128_MAX; rfl
  have h' : I128_MAX < ((N.natAbs / d.natAbs : Nat) : Int) := by
    rw [← hM]; exact Int.ofNat_lt.mpr (by omega)
  unfold I128_MIN I128_MAX at *
  by_cases h0 : 0 ≤ N
  · have := t1 h0; right; omega
  · by_cases hr : N % d = 0
    · have := t2 (by omega) hr; have := r3 hr; left; omega
    · have := t3 (by omega) hr; left; omega

/-- closing step of the wide branches: `Some`/`None` of the wide division followed by `round_quot` conforms to
    the spec's `valFit` of the rounded exact quotient -/
theorem wide_tail (tm : Mode) (N d : Int) (n : Nat) (hd : 0 < d) (hdu : d ≤ I128_MAX) :
    Spec.allowedChecked (Spec.valFit (Spec.specRound tm N d) n)
      (outOptPair (.ok (
        (if (N.natAbs / d.natAbs : Nat) ≤ I128_MAX.toNat then some (N / d, N % d) else none).bind fun qr =>
          (roundQuot tm qr.1 (IntTy.u128.cast qr.2).toNat (IntTy.u128.cast d).toNat none).map fun c => (⟨c, n⟩ : Dec)))) = true := by
  have h1 := Int.emod_nonneg N (Int.ne_of_gt hd)
  have h2 := Int.emod_lt_of_pos N hd
  by_cases ht : (N.natAbs / d.natAbs : Nat) ≤ I128_MAX.toNat
  · have hqf := floor_fits_of_trunc N d hd ht
    simp only [ht, if_true, Option.bind_some]
    rw [cast_u128_nonneg h1 (by omega), cast_u128_nonneg (Int.le_of_lt hd) hdu, roundQuot_none,
      roundQuot_spec tm tm N d hd (by omega) hqf]
    cases hh : fitsI128 (Spec.specRound tm N d)
    · rw [checkedI128_none hh]; exact valFit_none _ _ hh
    · rw [checkedI128_some hh]; exact valFit_some _ _ hh
  · simp only [ht, if_false, Option.bind_none]
    have := round_unfit_of_trunc tm N d hd ht
    rw [valFit_eq]
    by_cases hm : Spec.specRound tm N d = I128_MIN
    · simp [hm, Spec.allowedChecked]
    · have hnf : fitsI128 (Spec.specRound tm N d) = false := by
        cases hh : fitsI128 (Spec.specRound tm N d)
        · rfl
        · rw [fitsI128_iff] at hh; omega
      simp [hm, hnf, Spec.allowedChecked]

/-- `wide_tail` with the operands of `round_quot` written as magnitudes (`rem.unsigned_abs()`, `divisor.unsigned_abs()`: the form of
    `i128_shifted_div_rounded` after the D13 repair); the divisor may be `2^127 = |i128::MIN|` -/
theorem wide_tail_abs (tm : Mode) (N d : Int) (n : Nat) (hd : 0 < d) (hdu : d ≤ I128_MAX + 1) :
    Spec.allowedChecked (Spec.valFit (Spec.specRound tm N d) n)
      (outOptPair (.ok (
        (if (N.natAbs / d.natAbs : Nat) ≤ I128_MAX.toNat then some (N / d, N % d) else none).bind fun qr =>
          (roundQuot tm qr.1 qr.2.natAbs d.natAbs none).map fun c => (⟨c, n⟩ : Dec)))) = true := by
  have h1 := Int.emod_nonneg N (Int.ne_of_gt hd)
  have h2 := Int.emod_lt_of_pos N hd
  by_cases ht : (N.natAbs / d.natAbs : Nat) ≤ I128_MAX.toNat
  · have hqf := floor_fits_of_trunc N d hd ht
    simp only [ht, if_true, Option.bind_some]
    have ea : (N % d).natAbs = (N % d).toNat := by omega
    have eb : d.natAbs = d.toNat := by omega
    rw [ea, eb, roundQuot_none, roundQuot_spec tm tm N d hd hdu hqf]
    cases hh : fitsI128 (Spec.specRound tm N d)
    · rw [checkedI128_none hh]; exact valFit_none _ _ hh
    · rw [checkedI128_some hh]; exact valFit_some _ _ hh
  · simp only [ht, if_false, Option.bind_none]
    have := round_unfit_of_trunc tm N d hd ht
    rw [valFit_eq]
    by_cases hm : Spec.specRound tm N d = I128_MIN
    · simp [hm, Spec.allowedChecked]
    · have hnf : fitsI128 (Spec.specRound tm N d) = false := by
        cases hh : fitsI128 (Spec.specRound tm N d)
        · rfl
        · rw [fitsI128_iff] at hh; omega
      simp [hm, hnf, Spec.allowedChecked]

end Fpdec
