import Fpdec.Lemmas.Dom
import Mathlib.Tactic.Ring
import Mathlib.Tactic.Linarith

/-!
# C08 — Equality and ordering are by numeric value and form a total order

Model (Fpdec/Model/Decimal.lean, mirror of /repo/src/binops/cmp.rs): `checkedAdjustCoeffs` (Model/Core.lean), `partialCmp`, `decimalEq`,
`cmp`, `decEqInt`, `partialCmpDecInt`, `partialCmpIntDec`.  Spec: `Spec.cmp a p b q = compare (a·10^q) (b·10^p)` (Spec/Arith.lean) —
the comparison of the exact rational values `a/10^p` and `b/10^q`.  `Dom d`: `I128_MIN < coeff ≤ I128_MAX`, `nfrac ≤ 18`.
The interesting part: when aligning the scales overflows (`checkedMulPowTen … = none`, i.e. `|c|·10^k` does not fit an i128) the code
decides by sign only — show that is right because the other side is an i128.  `checkedMulPowTen_eq` (Lemmas/Basic.lean) rewrites
`checkedMulPowTen v n` to `checkedI128 (v * 10^n)` for `n ≤ 38`.
-/

namespace Fpdec
open Fpdec.Model

/-! ### `compare` on `Int` -/

theorem intCompare_lt {a b : Int} (h : a < b) : compare a b = .lt := by
  simp [compare, compareOfLessAndEq, h]

theorem intCompare_eq {a b : Int} (h : a = b) : compare a b = .eq := by
  subst h; simp [compare, compareOfLessAndEq]

theorem intCompare_gt {a b : Int} (h : b < a) : compare a b = .gt := by
  have h1 : ¬ a < b := by omega
  have h2 : ¬ a = b := by omega
  simp [compare, compareOfLessAndEq, h1, h2]

theorem intCompare_cases (a b : Int) :
    (a < b ∧ compare a b = .lt) ∨ (a = b ∧ compare a b = .eq) ∨ (b < a ∧ compare a b = .gt) := by
  rcases Int.lt_trichotomy a b with h | h | h
  · exact Or.inl ⟨h, intCompare_lt h⟩
  · exact Or.inr (Or.inl ⟨h, intCompare_eq h⟩)
  · exact Or.inr (Or.inr ⟨h, intCompare_gt h⟩)

theorem intCompare_eq_lt_iff (a b : Int) : compare a b = .lt ↔ a < b := by
  rcases intCompare_cases a b with ⟨h, e⟩ | ⟨h, e⟩ | ⟨h, e⟩ <;> rw [e] <;> simp <;> omega

theorem intCompare_eq_eq_iff (a b : Int) : compare a b = .eq ↔ a = b := by
  rcases intCompare_cases a b with ⟨h, e⟩ | ⟨h, e⟩ | ⟨h, e⟩ <;> rw [e] <;> simp <;> omega

theorem intCompare_eq_gt_iff (a b : Int) : compare a b = .gt ↔ b < a := by
  rcases intCompare_cases a b with ⟨h, e⟩ | ⟨h, e⟩ | ⟨h, e⟩ <;> rw [e] <;> simp <;> omega

theorem intCompare_ne_gt_iff (a b : Int) : compare a b ≠ .gt ↔ a ≤ b := by
  rw [Ne, intCompare_eq_gt_iff]; omega

theorem intCompare_congr {a b c d : Int} (h1 : a < b ↔ c < d) (h2 : a = b ↔ c = d) :
    compare a b = compare c d := by
  rcases intCompare_cases a b with ⟨h, e⟩ | ⟨h, e⟩ | ⟨h, e⟩
  · rw [e, intCompare_lt (h1.mp h)]
  · rw [e, intCompare_eq (h2.mp h)]
  · rw [e]
    have n1 : ¬ c < d := fun hc => by have := h1.mpr hc; omega
    have n2 : ¬ c = d := fun hc => by have := h2.mpr hc; omega
    rw [intCompare_gt (by omega)]

theorem intCompare_swap (a b : Int) : compare b a = (compare a b).swap := by
  rcases intCompare_cases a b with ⟨h, e⟩ | ⟨h, e⟩ | ⟨h, e⟩
  · rw [e, intCompare_gt h]; rfl
  · rw [e, intCompare_eq h.symm]; rfl
  · rw [e, intCompare_lt h]; rfl

/-- multiplication by a positive factor preserves the comparison -/
theorem intCompare_mul_right (a b P : Int) (hP : 0 < P) : compare (a * P) (b * P) = compare a b := by
  apply intCompare_congr
  · exact Int.mul_lt_mul_right hP
  · constructor
    · intro h; exact Int.eq_of_mul_eq_mul_right (by omega) h
    · intro h; rw [h]

theorem tenPow_pos (n : Nat) : 0 < (10 : Int) ^ n := Int.pow_pos (by decide)

theorem tenPow_ge_one (n : Nat) : 1 ≤ (10 : Int) ^ n := tenPow_pos n

theorem tenPow_split {p q : Nat} (h : p ≤ q) : (10 : Int) ^ q = (10 : Int) ^ (q - p) * (10 : Int) ^ p := by
  rw [← Int.pow_add]; congr 1; omega

/-- scale alignment on the left: `p ≤ q` -/
theorem spec_cmp_left (a : Int) (p : Nat) (b : Int) (q : Nat) (h : p ≤ q) :
    Spec.cmp a p b q = compare (a * (10 : Int) ^ (q - p)) b := by
  unfold Spec.cmp
  rw [tenPow_split h, ← Int.mul_assoc]
  exact intCompare_mul_right _ _ _ (tenPow_pos p)

/-- scale alignment on the right: `q ≤ p` -/
theorem spec_cmp_right (a : Int) (p : Nat) (b : Int) (q : Nat) (h : q ≤ p) :
    Spec.cmp a p b q = compare a (b * (10 : Int) ^ (p - q)) := by
  unfold Spec.cmp
  rw [tenPow_split h, ← Int.mul_assoc]
  exact intCompare_mul_right _ _ _ (tenPow_pos q)

/-! ### `checkedI128` of a scaled value -/

theorem checkedI128_eq_some {x c : Int} (h : checkedI128 x = some c) :
    c = x ∧ I128_MIN ≤ x ∧ x ≤ I128_MAX := by
  unfold checkedI128 at h
  by_cases hf : fitsI128 x = true
  · rw [if_pos hf] at h
    have := (fitsI128_iff x).mp hf
    exact ⟨(Option.some.inj h).symm, this.1, this.2⟩
  · rw [if_neg hf] at h; cases h

theorem checkedI128_eq_none {x : Int} (h : checkedI128 x = none) : x < I128_MIN ∨ I128_MAX < x := by
  unfold checkedI128 at h
  by_cases hf : fitsI128 x = true
  · rw [if_pos hf] at h; cases h
  · have := (fitsI128_iff x).not.mp hf
    omega

/-- when `a·P` (with `P ≥ 1`) overflows, `a ≠ 0` and the sign of `a` tells on which side -/
theorem scaled_overflow {a P : Int} (hP : 1 ≤ P) (h : checkedI128 (a * P) = none) :
    (0 < a ∧ I128_MAX < a * P) ∨ (a < 0 ∧ a * P < I128_MIN) := by
  have hh := checkedI128_eq_none h
  rcases Int.lt_trichotomy a 0 with ha | ha | ha
  · right
    refine ⟨ha, ?_⟩
    have : a * P ≤ 0 := by nlinarith
    rcases hh with hh | hh
    · exact hh
    · unfold I128_MAX at hh; omega
  · subst ha
    unfold I128_MIN I128_MAX at hh; simp at hh
  · left
    refine ⟨ha, ?_⟩
    have : 0 ≤ a * P := by nlinarith
    rcases hh with hh | hh
    · unfold I128_MIN at hh; omega
    · exact hh

/-! ### Decimal against Decimal -/

/-- `Dom` plus the coefficient `i128::MIN`: what `Decimal::from(i128)` can produce (the comparisons do not need `i128::MIN` excluded) -/
def DomI (d : Dec) : Prop := I128_MIN ≤ d.coeff ∧ d.coeff ≤ I128_MAX ∧ d.nfrac ≤ 18

theorem Dom.domI {d : Dec} (h : Dom d) : DomI d := ⟨Int.le_of_lt h.1, h.2.1, h.2.2⟩

/-- `partial_cmp` on two Decimals is never `None` and is the comparison of the values -/
theorem partialCmp_spec_full (x y : Dec) (hx : DomI x) (hy : DomI y) :
    partialCmp x y = some (Spec.cmp x.coeff x.nfrac y.coeff y.nfrac) := by
  obtain ⟨hx1, hx2, hx3⟩ := hx
  obtain ⟨hy1, hy2, hy3⟩ := hy
  unfold partialCmp checkedAdjustCoeffs
  rcases Nat.lt_trichotomy x.nfrac y.nfrac with hpq | hpq | hpq
  · rw [Nat.compare_eq_lt.mpr hpq]
    simp only []
    rw [checkedMulPowTen_eq _ _ (by omega), spec_cmp_left _ _ _ _ (Nat.le_of_lt hpq)]
    cases hc : checkedI128 (x.coeff * (10 : Int) ^ (y.nfrac - x.nfrac)) with
    | some c =>
      obtain ⟨rfl, _, _⟩ := checkedI128_eq_some hc
      rfl
    | none =>
      simp only []
      rcases scaled_overflow (tenPow_ge_one _) hc with ⟨ha, hb⟩ | ⟨ha, hb⟩
      · rw [if_pos ha, intCompare_gt (by omega)]
      · rw [if_neg (by omega), intCompare_lt (by omega)]
  · rw [Nat.compare_eq_eq.mpr hpq]
    simp only []
    rw [spec_cmp_left _ _ _ _ (Nat.le_of_eq hpq), hpq, Nat.sub_self, Int.pow_zero, Int.mul_one]
    rfl
  · rw [Nat.compare_eq_gt.mpr hpq]
    simp only []
    rw [checkedMulPowTen_eq _ _ (by omega), spec_cmp_right _ _ _ _ (Nat.le_of_lt hpq)]
    cases hc : checkedI128 (y.coeff * (10 : Int) ^ (x.nfrac - y.nfrac)) with
    | some c =>
      obtain ⟨rfl, _, _⟩ := checkedI128_eq_some hc
      rfl
    | none =>
      simp only []
      rcases scaled_overflow (tenPow_ge_one _) hc with ⟨ha, hb⟩ | ⟨ha, hb⟩
      · rw [if_neg (by omega), intCompare_lt (by omega)]
      · rw [if_pos ha, intCompare_gt (by omega)]

theorem partialCmp_spec (x y : Dec) (hx : Dom x) (hy : Dom y) :
    partialCmp x y = some (Spec.cmp x.coeff x.nfrac y.coeff y.nfrac) := partialCmp_spec_full x y hx.domI hy.domI

/-- `Ord::cmp` never panics -/
theorem cmp_spec (x y : Dec) (hx : Dom x) (hy : Dom y) :
    Model.cmp x y = .ok (Spec.cmp x.coeff x.nfrac y.coeff y.nfrac) := by
  unfold Model.cmp
  rw [partialCmp_spec x y hx hy]

/-- `==` -/
theorem decimalEq_spec_full (x y : Dec) (hx : DomI x) (hy : DomI y) :
    decimalEq x y = (Spec.cmp x.coeff x.nfrac y.coeff y.nfrac == .eq) := by
  obtain ⟨hx1, hx2, hx3⟩ := hx
  obtain ⟨hy1, hy2, hy3⟩ := hy
  unfold decimalEq checkedAdjustCoeffs
  rcases Nat.lt_trichotomy x.nfrac y.nfrac with hpq | hpq | hpq
  · rw [Nat.compare_eq_lt.mpr hpq]
    simp only []
    rw [checkedMulPowTen_eq _ _ (by omega), spec_cmp_left _ _ _ _ (Nat.le_of_lt hpq)]
    cases hc : checkedI128 (x.coeff * (10 : Int) ^ (y.nfrac - x.nfrac)) with
    | some c =>
      obtain ⟨rfl, _, _⟩ := checkedI128_eq_some hc
      simp only []
      rcases intCompare_cases (x.coeff * (10 : Int) ^ (y.nfrac - x.nfrac)) y.coeff with ⟨h, e⟩ | ⟨h, e⟩ | ⟨h, e⟩
      · rw [e]; simp; omega
      · rw [e]; simp [h]
      · rw [e]; simp; omega
    | none =>
      simp only []
      rcases scaled_overflow (tenPow_ge_one _) hc with ⟨ha, hb⟩ | ⟨ha, hb⟩
      · rw [intCompare_gt (by omega)]; rfl
      · rw [intCompare_lt (by omega)]; rfl
  · rw [Nat.compare_eq_eq.mpr hpq]
    simp only []
    rw [spec_cmp_left _ _ _ _ (Nat.le_of_eq hpq), hpq, Nat.sub_self, Int.pow_zero, Int.mul_one]
    rcases intCompare_cases x.coeff y.coeff with ⟨h, e⟩ | ⟨h, e⟩ | ⟨h, e⟩
    · rw [e]; simp; omega
    · rw [e]; simp [h]
    · rw [e]; simp; omega
  · rw [Nat.compare_eq_gt.mpr hpq]
    simp only []
    rw [checkedMulPowTen_eq _ _ (by omega), spec_cmp_right _ _ _ _ (Nat.le_of_lt hpq)]
    cases hc : checkedI128 (y.coeff * (10 : Int) ^ (x.nfrac - y.nfrac)) with
    | some c =>
      obtain ⟨rfl, _, _⟩ := checkedI128_eq_some hc
      simp only []
      rcases intCompare_cases x.coeff (y.coeff * (10 : Int) ^ (x.nfrac - y.nfrac)) with ⟨h, e⟩ | ⟨h, e⟩ | ⟨h, e⟩
      · rw [e]; simp; omega
      · rw [e]; simp [h]
      · rw [e]; simp; omega
    | none =>
      simp only []
      rcases scaled_overflow (tenPow_ge_one _) hc with ⟨ha, hb⟩ | ⟨ha, hb⟩
      · rw [intCompare_lt (by omega)]; rfl
      · rw [intCompare_gt (by omega)]; rfl

theorem decimalEq_spec (x y : Dec) (hx : Dom x) (hy : Dom y) :
    decimalEq x y = (Spec.cmp x.coeff x.nfrac y.coeff y.nfrac == .eq) := decimalEq_spec_full x y hx.domI hy.domI

/-! ### Decimal against a primitive integer -/

/-- range of an integer operand: signed types are subsets of i128, unsigned ones of u64 -/
def IntOperand (signed : Bool) (i : Int) : Prop :=
  if signed then I128_MIN ≤ i ∧ i ≤ I128_MAX else 0 ≤ i ∧ i < 18446744073709551616

theorem spec_cmp_decInt (a : Int) (p : Nat) (i : Int) :
    Spec.cmp a p i 0 = compare a (i * (10 : Int) ^ p) := by
  rw [spec_cmp_right _ _ _ _ (Nat.zero_le p), Nat.sub_zero]

theorem spec_cmp_intDec (i : Int) (a : Int) (p : Nat) :
    Spec.cmp i 0 a p = compare (i * (10 : Int) ^ p) a := by
  rw [spec_cmp_left _ _ _ _ (Nat.zero_le p), Nat.sub_zero]

/-- `Decimal.partial_cmp(&int)` -/
theorem partialCmpDecInt_spec (signed : Bool) (d : Dec) (i : Int) (hd : Dom d) (hi : IntOperand signed i) :
    partialCmpDecInt signed d i = some (Spec.cmp d.coeff d.nfrac i 0) := by
  obtain ⟨hd1, hd2, hd3⟩ := hd
  unfold partialCmpDecInt
  rw [spec_cmp_decInt, checkedMulPowTen_eq _ _ (by omega)]
  cases signed with
  | true =>
    simp only [if_true]
    cases hc : checkedI128 (i * (10 : Int) ^ d.nfrac) with
    | some c =>
      obtain ⟨rfl, _, _⟩ := checkedI128_eq_some hc
      rfl
    | none =>
      simp only []
      rcases scaled_overflow (tenPow_ge_one _) hc with ⟨ha, hb⟩ | ⟨ha, hb⟩
      · rw [if_pos (by omega), intCompare_lt (by omega)]
      · rw [if_neg (by omega), intCompare_gt (by omega)]
  | false =>
    have hi' : 0 ≤ i ∧ i < 18446744073709551616 := by simpa [IntOperand] using hi
    simp only [Bool.false_eq_true, if_false]
    by_cases hneg : d.coeff < 0
    · have hP := tenPow_pos d.nfrac
      have : 0 ≤ i * (10 : Int) ^ d.nfrac := Int.mul_nonneg hi'.1 (Int.le_of_lt hP)
      simp only [isNegative, hneg, decide_true, if_true]
      rw [intCompare_lt (by omega)]
    · simp only [isNegative, hneg, decide_false, Bool.false_eq_true, if_false]
      cases hc : checkedI128 (i * (10 : Int) ^ d.nfrac) with
      | some c =>
        obtain ⟨rfl, _, _⟩ := checkedI128_eq_some hc
        rfl
      | none =>
        simp only []
        rcases scaled_overflow (tenPow_ge_one _) hc with ⟨ha, hb⟩ | ⟨ha, hb⟩
        · rw [intCompare_lt (by omega)]
        · omega

/-- `int.partial_cmp(&Decimal)` -/
theorem partialCmpIntDec_spec (signed : Bool) (i : Int) (d : Dec) (hd : Dom d) (hi : IntOperand signed i) :
    partialCmpIntDec signed i d = some (Spec.cmp i 0 d.coeff d.nfrac) := by
  obtain ⟨hd1, hd2, hd3⟩ := hd
  unfold partialCmpIntDec
  rw [spec_cmp_intDec, checkedMulPowTen_eq _ _ (by omega)]
  cases signed with
  | true =>
    simp only [if_true]
    cases hc : checkedI128 (i * (10 : Int) ^ d.nfrac) with
    | some c =>
      obtain ⟨rfl, _, _⟩ := checkedI128_eq_some hc
      rfl
    | none =>
      simp only []
      rcases scaled_overflow (tenPow_ge_one _) hc with ⟨ha, hb⟩ | ⟨ha, hb⟩
      · rw [if_neg (by omega), intCompare_gt (by omega)]
      · rw [if_pos ha, intCompare_lt (by omega)]
  | false =>
    have hi' : 0 ≤ i ∧ i < 18446744073709551616 := by simpa [IntOperand] using hi
    simp only [Bool.false_eq_true, if_false]
    by_cases hneg : d.coeff < 0
    · have hP := tenPow_pos d.nfrac
      have : 0 ≤ i * (10 : Int) ^ d.nfrac := Int.mul_nonneg hi'.1 (Int.le_of_lt hP)
      simp only [isNegative, hneg, decide_true, if_true]
      rw [intCompare_gt (by omega)]
    · simp only [isNegative, hneg, decide_false, Bool.false_eq_true, if_false]
      cases hc : checkedI128 (i * (10 : Int) ^ d.nfrac) with
      | some c =>
        obtain ⟨rfl, _, _⟩ := checkedI128_eq_some hc
        rfl
      | none =>
        simp only []
        rcases scaled_overflow (tenPow_ge_one _) hc with ⟨ha, hb⟩ | ⟨ha, hb⟩
        · rw [intCompare_gt (by omega)]
        · omega

/-- `Decimal == int` (and `int == Decimal`, which forwards to it) -/
theorem decEqInt_spec (signed : Bool) (d : Dec) (i : Int) (hd : Dom d) (hi : IntOperand signed i) :
    decEqInt signed d i = (Spec.cmp d.coeff d.nfrac i 0 == .eq) := by
  obtain ⟨hd1, hd2, hd3⟩ := hd
  unfold decEqInt
  rw [spec_cmp_decInt, checkedMulPowTen_eq _ _ (by omega)]
  have main : (match checkedI128 (i * (10 : Int) ^ d.nfrac) with
      | some c => decide (d.coeff = c)
      | none => false) = (compare d.coeff (i * (10 : Int) ^ d.nfrac) == .eq) := by
    cases hc : checkedI128 (i * (10 : Int) ^ d.nfrac) with
    | some c =>
      obtain ⟨rfl, _, _⟩ := checkedI128_eq_some hc
      simp only []
      rcases intCompare_cases d.coeff (i * (10 : Int) ^ d.nfrac) with ⟨h, e⟩ | ⟨h, e⟩ | ⟨h, e⟩
      · rw [e]; simp; omega
      · rw [e]; simp [h]
      · rw [e]; simp; omega
    | none =>
      simp only []
      rcases scaled_overflow (tenPow_ge_one _) hc with ⟨ha, hb⟩ | ⟨ha, hb⟩
      · rw [intCompare_lt (by omega)]; rfl
      · rw [intCompare_gt (by omega)]; rfl
  cases signed with
  | true =>
    simp only [Bool.not_true, Bool.false_and, Bool.false_eq_true, if_false]
    exact main
  | false =>
    have hi' : 0 ≤ i ∧ i < 18446744073709551616 := by simpa [IntOperand] using hi
    by_cases hneg : d.coeff < 0
    · have hP := tenPow_pos d.nfrac
      have : 0 ≤ i * (10 : Int) ^ d.nfrac := Int.mul_nonneg hi'.1 (Int.le_of_lt hP)
      simp only [isNegative, hneg, decide_true, Bool.not_false, Bool.and_self, if_true]
      rw [intCompare_lt (by omega)]; rfl
    · simp only [isNegative, hneg, decide_false, Bool.not_false, Bool.and_false, Bool.false_eq_true, if_false]
      exact main

/-! total order laws of the value comparison (for arbitrary integers and scales) -/

theorem spec_cmp_refl (a : Int) (p : Nat) : Spec.cmp a p a p = .eq := by
  unfold Spec.cmp; exact intCompare_eq rfl

theorem spec_cmp_swap (a : Int) (p : Nat) (b : Int) (q : Nat) : Spec.cmp b q a p = (Spec.cmp a p b q).swap := by
  unfold Spec.cmp; exact intCompare_swap _ _

/-- transitivity of `≤` on values: the relation is a total preorder whose equivalence is "same value" -/
theorem spec_cmp_trans (a : Int) (p : Nat) (b : Int) (q : Nat) (c : Int) (r : Nat)
    (h1 : Spec.cmp a p b q ≠ .gt) (h2 : Spec.cmp b q c r ≠ .gt) : Spec.cmp a p c r ≠ .gt := by
  unfold Spec.cmp at *
  rw [intCompare_ne_gt_iff] at *
  have hP := tenPow_pos p
  have hQ := tenPow_pos q
  have hR := tenPow_pos r
  generalize (10 : Int) ^ p = P at *
  generalize (10 : Int) ^ q = Q at *
  generalize (10 : Int) ^ r = R at *
  -- a*Q ≤ b*P, b*R ≤ c*Q ⊢ a*R ≤ c*P
  have e1 : a * Q * R ≤ b * P * R := Int.mul_le_mul_of_nonneg_right h1 (Int.le_of_lt hR)
  have e2 : b * R * P ≤ c * Q * P := Int.mul_le_mul_of_nonneg_right h2 (Int.le_of_lt hP)
  have e3 : (a * R) * Q ≤ (c * P) * Q := by
    calc (a * R) * Q = a * Q * R := by ring
      _ ≤ b * P * R := e1
      _ = b * R * P := by ring
      _ ≤ c * Q * P := e2
      _ = (c * P) * Q := by ring
  exact Int.le_of_mul_le_mul_right e3 hQ

/-- equal under `cmp` iff equal as rationals (cross-multiplied) -/
theorem spec_cmp_eq_iff (a : Int) (p : Nat) (b : Int) (q : Nat) :
    Spec.cmp a p b q = .eq ↔ a * (10 : Int) ^ q = b * (10 : Int) ^ p := by
  unfold Spec.cmp; exact intCompare_eq_eq_iff _ _

end Fpdec
