import Fpdec.Lemmas.Rounding
import Mathlib.Tactic.Linarith

/-!
# Helpers for C15: truncating / floor / ceiling division of an `i128` by a positive divisor
-/

namespace Fpdec
open Fpdec.Model

/-- Rust `/` by a positive divisor never panics -/
theorem divI128_pos (x y : Int) (hy : 0 < y) : divI128 x y = .ok (x.tdiv y) := by
  unfold divI128
  have h1 : y ≠ 0 := by omega
  have h2 : ¬ (x = I128_MIN ∧ y = -1) := by omega
  simp only [h1, h2, if_false]

/-- Rust `%` by a positive divisor never panics -/
theorem remI128_pos (x y : Int) (hy : 0 < y) : remI128 x y = .ok (x.tmod y) := by
  unfold remI128
  have h1 : y ≠ 0 := by omega
  have h2 : ¬ (x = I128_MIN ∧ y = -1) := by omega
  simp only [h1, h2, if_false]

/-- floor division of the negated dividend (positive divisor) -/
theorem neg_ediv_pos (x y : Int) (hy : 0 < y) :
    (-x) / y = if x % y = 0 then -(x / y) else -(x / y) - 1 := by
  rw [Int.neg_ediv, Int.sign_eq_one_of_pos hy]
  have hdvd : y ∣ x ↔ x % y = 0 := Int.dvd_iff_emod_eq_zero
  by_cases h : x % y = 0
  · simp [h, hdvd.mpr h]
  · have : ¬ y ∣ x := fun hh => h (hdvd.mp hh)
    simp [h, this]

/-- truncating quotient and remainder in terms of floor quotient and remainder (positive divisor) -/
theorem tdiv_tmod_pos (x y : Int) (hy : 0 < y) :
    (x.tdiv y = if 0 ≤ x ∨ x % y = 0 then x / y else x / y + 1) ∧
    (x.tmod y = if 0 ≤ x ∨ x % y = 0 then x % y else x % y - y) := by
  rw [Int.tdiv_eq_ediv, Int.tmod_eq_emod]
  have hs : y.sign = 1 := Int.sign_eq_one_of_pos hy
  have hab : (y.natAbs : Int) = y := Int.natAbs_of_nonneg (Int.le_of_lt hy)
  have hdvd : y ∣ x ↔ x % y = 0 := Int.dvd_iff_emod_eq_zero
  simp only [hdvd]
  by_cases hc : 0 ≤ x ∨ x % y = 0
  · simp [hc]
  · simp [hc, hs, hab]

theorem ediv_fits_pos {x y : Int} (hx : fitsI128 x = true) (hy : 0 < y) : I128_MIN ≤ x / y ∧ x / y ≤ I128_MAX := by
  rw [fitsI128_iff] at hx
  unfold I128_MIN I128_MAX at *
  constructor
  · by_cases hxn : 0 ≤ x
    · have := Int.ediv_nonneg hxn (Int.le_of_lt hy); omega
    · have := ediv_ge_of_neg (x := x) (by omega) hy; omega
  · by_cases hxn : 0 ≤ x
    · have := Int.ediv_le_self y hxn; omega
    · have := Int.ediv_neg_of_neg_of_pos (show x < 0 by omega) hy; omega

/-- `div_floor` (the private helper of unops.rs) by a positive divisor is floor division -/
theorem divFloorI128_pos (prof : Profile) (x y : Int) (hx : fitsI128 x = true) (hy : 0 < y) :
    divFloorI128 prof x y = .ok (x / y) := by
  have h1 := Int.emod_nonneg x (Int.ne_of_gt hy)
  have h2 := Int.emod_lt_of_pos x hy
  obtain ⟨hq, hr⟩ := tdiv_tmod_pos x y hy
  have hf := ediv_fits_pos hx hy
  unfold divFloorI128
  rw [divI128_pos x y hy, remI128_pos x y hy]
  simp only [Outcome.bind_ok]
  rw [hq, hr]
  by_cases hc : 0 ≤ x ∨ x % y = 0
  · simp only [hc, if_true]
    have hcond : ¬ ((x % y > 0 ∧ y < 0) ∨ (x % y < 0 ∧ y > 0)) := by omega
    simp only [hcond, if_false, Outcome.pure_eq]
  · simp only [hc, if_false]
    have hcond : (x % y - y > 0 ∧ y < 0) ∨ (x % y - y < 0 ∧ y > 0) := by omega
    simp only [hcond, if_true]
    have f1 : fitsI128 (x / y + 1 - 1) = true := by rw [fitsI128_iff]; omega
    rw [plainI128_ok prof f1]
    congr 1; omega

/-- `div_ceil` by a positive divisor is ceiling division -/
theorem divCeilI128_pos (prof : Profile) (x y : Int) (hx : fitsI128 x = true) (hx' : I128_MIN < x) (hy : 0 < y) :
    divCeilI128 prof x y = .ok (-((-x) / y)) := by
  have h1 := Int.emod_nonneg x (Int.ne_of_gt hy)
  have h2 := Int.emod_lt_of_pos x hy
  obtain ⟨hq, hr⟩ := tdiv_tmod_pos x y hy
  have hf := ediv_fits_pos hx hy
  have hnx : fitsI128 (-x) = true := by
    rw [fitsI128_iff] at hx ⊢; unfold I128_MIN I128_MAX at *; omega
  have hf' := ediv_fits_pos hnx hy
  have hneg := neg_ediv_pos x y hy
  unfold divCeilI128
  rw [divI128_pos x y hy, remI128_pos x y hy]
  simp only [Outcome.bind_ok]
  rw [hq, hr]
  by_cases h0 : x % y = 0
  · have hc : 0 ≤ x ∨ x % y = 0 := Or.inr h0
    simp only [hc, if_true]
    have hcond : ¬ ((x % y > 0 ∧ y > 0) ∨ (x % y < 0 ∧ y < 0)) := by omega
    simp only [hcond, if_false, Outcome.pure_eq]
    rw [hneg]; simp only [h0, if_true]; congr 1; omega
  · rw [if_neg h0] at hneg
    by_cases hxn : 0 ≤ x
    · have hc : 0 ≤ x ∨ x % y = 0 := Or.inl hxn
      simp only [hc, if_true]
      have hcond : (x % y > 0 ∧ y > 0) ∨ (x % y < 0 ∧ y < 0) := by omega
      simp only [hcond, if_true]
      have f1 : fitsI128 (x / y + 1) = true := by
        have h3 := Int.mul_ediv_add_emod x y
        have hq0 := Int.ediv_nonneg hxn (Int.le_of_lt hy)
        have : 2 * (x / y) ≤ y * (x / y) := Int.mul_le_mul_of_nonneg_right (by omega) hq0
        rw [fitsI128_iff] at hx ⊢; unfold I128_MIN I128_MAX at *; omega
      rw [plainI128_ok prof f1]
      congr 1; omega
    · have hc : ¬ (0 ≤ x ∨ x % y = 0) := by omega
      simp only [hc, if_false]
      have hcond : ¬ ((x % y - y > 0 ∧ y > 0) ∨ (x % y - y < 0 ∧ y < 0)) := by omega
      simp only [hcond, if_false, Outcome.pure_eq]
      congr 1; omega

/-- `10^p` for `p ≤ 18` is a positive i128 -/
theorem pow10_le_max_u {p : Nat} (h : p ≤ 18) : (10 : Int) ^ p ≤ I128_MAX := by
  have := pow10_mono h
  have e : (10 : Int) ^ 18 = 1000000000000000000 := by decide
  unfold I128_MAX; omega

end Fpdec
