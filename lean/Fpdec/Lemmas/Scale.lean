import Fpdec.Lemmas.WideRound
import Mathlib.Tactic.Ring
import Mathlib.Tactic.Linarith

/-!
# Invariance lemmas for the spec rounding

* `specRound_congr`: the rounded value only depends on the floor, on whether the division is exact, on the sign of the
  dividend and on how twice the remainder compares with the divisor.
* `specRound_scale`: multiplying dividend and divisor by the same positive number changes nothing.
* `specRound_two_step` (the correctness of the repaired divisor-scaled branch of `checked_div_rounded`, defect D7):
  with `q = ⌊a/b⌋`, `rem = a mod b`, an even `t`: rounding `(2q+1)/(2t)` (for `rem ≠ 0`) resp. `q/t` (for `rem = 0`)
  equals rounding `a/(b·t)` once.
-/

namespace Fpdec
open Fpdec.Model

theorem specRound_congr (m : Mode) (n d n' d' : Int)
    (hfl : n / d = n' / d') (hz : n % d = 0 ↔ n' % d' = 0) (hs : n ≥ 0 ↔ n' ≥ 0)
    (hlt : 2 * (n % d) < d ↔ 2 * (n' % d') < d') (hgt : 2 * (n % d) > d ↔ 2 * (n' % d') > d') :
    Spec.specRound m n d = Spec.specRound m n' d' := by
  unfold Spec.specRound
  simp only [hfl]
  by_cases h0 : n % d = 0
  · have h0' := hz.mp h0
    simp [h0, h0']
  · have h0' : ¬ n' % d' = 0 := fun h => h0 (hz.mpr h)
    simp only [h0, h0', if_false]
    by_cases hsn : n ≥ 0
    · have hsn' := hs.mp hsn
      simp only [hsn, hsn', if_true]
      cases m <;> simp only [hlt, hgt]
    · have hsn' : ¬ n' ≥ 0 := fun h => hsn (hs.mpr h)
      simp only [hsn, hsn', if_false]
      cases m <;> simp only [hlt, hgt]

theorem specRound_scale (m : Mode) (n d k : Int) (_hd : 0 < d) (hk : 0 < k) :
    Spec.specRound m (n * k) (d * k) = Spec.specRound m n d := by
  have e1 : n * k / (d * k) = n / d := Int.mul_ediv_mul_of_pos_left n d hk
  have e2 : n * k % (d * k) = n % d * k := by
    rw [Int.mul_comm n k, Int.mul_comm d k, Int.mul_emod_mul_of_pos n d hk, Int.mul_comm]
  apply specRound_congr
  · exact e1
  · rw [e2]; constructor
    · intro h; rcases Int.mul_eq_zero.mp h with h | h
      · exact h
      · omega
    · intro h; rw [h]; simp
  · constructor
    · intro h; exact (Int.mul_nonneg_iff_of_pos_right hk).mp h
    · intro h; exact Int.mul_nonneg h (Int.le_of_lt hk)
  · rw [e2]
    constructor
    · intro h; nlinarith
    · intro h; nlinarith
  · rw [e2]
    constructor
    · intro h; nlinarith
    · intro h; nlinarith

theorem specRoundQ_scale (m : Mode) (n d k : Int) (hd : d ≠ 0) (hk : 0 < k) :
    Spec.specRoundQ m (n * k) (d * k) = Spec.specRoundQ m n d := by
  unfold Spec.specRoundQ
  by_cases hneg : d < 0
  · have : d * k < 0 := by nlinarith
    simp only [hneg, this, if_true]
    have e1 : -(n * k) = (-n) * k := by ring
    have e2 : -(d * k) = (-d) * k := by ring
    rw [e1, e2]
    exact specRound_scale m (-n) (-d) k (by omega) hk
  · have : ¬ d * k < 0 := by
      have : 0 < d := by omega
      nlinarith
    simp only [hneg, this, if_false]
    exact specRound_scale m n d k (by omega) hk

/-- exact first division: `a = q·b` -/
theorem specRound_exact_step (m : Mode) (q b t : Int) (hb : 0 < b) (ht : 0 < t) :
    Spec.specRound m q t = Spec.specRound m (q * b) (b * t) := by
  have := specRound_scale m q t b ht hb
  rw [Int.mul_comm t b] at this
  exact this.symm

/-- inexact first division: replace the fractional part of the first quotient by one half -/
theorem specRound_two_step (m : Mode) (a b t : Int) (hb : 0 < b) (ht : 0 < t) (heven : t % 2 = 0)
    (hrem : a % b ≠ 0) :
    Spec.specRound m (2 * (a / b) + 1) (2 * t) = Spec.specRound m a (b * t) := by
  -- notation: q = a / b, rem = a % b, Q = q / t, ρ = q % t
  have hq := Int.mul_ediv_add_emod a b
  have hr0 := Int.emod_nonneg a (Int.ne_of_gt hb)
  have hr1 := Int.emod_lt_of_pos a hb
  have hQ := Int.mul_ediv_add_emod (a / b) t
  have hρ0 := Int.emod_nonneg (a / b) (Int.ne_of_gt ht)
  have hρ1 := Int.emod_lt_of_pos (a / b) ht
  generalize hqd : a / b = q at *
  generalize hrd : a % b = rem at *
  generalize hQd : q / t = Q at *
  generalize hρd : q % t = ρ at *
  have hbt : 0 < b * t := Int.mul_pos hb ht
  -- left side: (2q+1) = (2t)·Q + (2ρ+1)
  have hL := (Int.ediv_emod_unique (a := 2 * q + 1) (b := 2 * t) (r := 2 * ρ + 1) (q := Q) (by omega)).mpr
    ⟨by rw [← hQ]; ring, by omega, by omega⟩
  -- right side: a = (b·t)·Q + (ρ·b + rem)
  have hbound : ρ * b + rem < b * t := by nlinarith
  have hnn : 0 ≤ ρ * b + rem := by nlinarith
  have hR := (Int.ediv_emod_unique (a := a) (b := b * t) (r := ρ * b + rem) (q := Q) hbt).mpr
    ⟨by rw [← hq, ← hQ]; ring, hnn, hbound⟩
  apply specRound_congr
  · rw [hL.1, hR.1]
  · rw [hL.2, hR.2]
    constructor
    · intro h; omega
    · intro h; exfalso
      have : ρ * b ≥ 0 := Int.mul_nonneg hρ0 (Int.le_of_lt hb)
      omega
  · -- signs: 2q+1 ≥ 0 ↔ q ≥ 0 ↔ a ≥ 0 (rem > 0)
    constructor
    · intro h
      have hq0 : 0 ≤ q := by omega
      have : 0 ≤ b * q := Int.mul_nonneg (Int.le_of_lt hb) hq0
      omega
    · intro h
      by_contra hcon
      have hq0 : q ≤ -1 := by omega
      have : b * q ≤ b * (-1) := Int.mul_le_mul_of_nonneg_left hq0 (Int.le_of_lt hb)
      omega
  · rw [hL.2, hR.2]
    constructor
    · intro h
      -- 2(2ρ+1) < 2t  ⇒ 2ρ+2 ≤ t ⇒ 2(ρ+1)b ≤ tb
      have h1 : 2 * ρ + 2 ≤ t := by omega
      nlinarith
    · intro h
      by_contra hcon
      -- 2ρ+1 ≥ t, t even ⇒ 2ρ ≥ t ⇒ 2ρb ≥ tb
      have h1 : 2 * ρ ≥ t := by omega
      nlinarith
  · rw [hL.2, hR.2]
    constructor
    · intro h
      have h1 : t ≤ 2 * ρ := by omega
      have h2 : t * b ≤ 2 * ρ * b := Int.mul_le_mul_of_nonneg_right h1 (Int.le_of_lt hb)
      have h3 : 0 < rem := by omega
      have e1 : b * t = t * b := Int.mul_comm b t
      have e2 : 2 * (ρ * b + rem) = 2 * ρ * b + 2 * rem := by ring
      omega
    · intro h
      by_contra hcon
      have h1 : 2 * ρ + 2 ≤ t := by omega
      have h2 : (2 * ρ + 2) * b ≤ t * b := Int.mul_le_mul_of_nonneg_right h1 (Int.le_of_lt hb)
      have e1 : b * t = t * b := Int.mul_comm b t
      have e2 : 2 * (ρ * b + rem) = 2 * ρ * b + 2 * rem := by ring
      have e3 : (2 * ρ + 2) * b = 2 * ρ * b + 2 * b := by ring
      omega

end Fpdec
