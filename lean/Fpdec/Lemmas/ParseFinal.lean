import Fpdec.Lemmas.ParseStr
import Mathlib.Tactic.Ring
import Mathlib.Tactic.NormNum

/-! # `from_str` against `parseSpec`: exponent part and final range checks (helper file for `Fpdec.Lemmas.Parse`) -/

namespace Fpdec.ParseAux
open Fpdec Fpdec.Model

/-- the relation of the theorem `fromStr_spec` -/
def agree (r : Spec.ParseRes) (o : Outcome (Except ParseErr Dec)) : Prop :=
  match r, o with
  | .ok c p, .ok (.ok d) => d = ⟨c, p⟩
  | .empty, .ok (.error e) => e = ParseErr.empty
  | .bad, .ok (.error e) => e ≠ ParseErr.empty
  | _, _ => False

theorem agree_bad (e : ParseErr) (h : e ≠ .empty) : agree .bad (.ok (.error e)) := h
theorem agree_ok (c : Int) (p : Nat) : agree (.ok c p) (.ok (.ok ⟨c, p⟩)) := rfl

/-- the part of `from_str` after `str_to_dec` -/
def fTail (prof : Profile) (r : Outcome (Except ParseErr (Int × Int))) : Outcome (Except ParseErr Dec) :=
  match r with
  | .panic k => .panic k
  | .ok (.error e) => .ok (.error e)
  | .ok (.ok (coeff, exponent)) =>
    match IntTy.isize.plain prof (-exponent) with
    | .panic k => .panic k
    | .ok nexp =>
      if nexp > Gen.MAX_N_FRAC_DIGITS then .ok (.error .fracLimit)
      else if exponent > Gen.FROM_STR_MAX_EXP then
        if coeff = 0 then .ok (.ok Dec.ZERO) else .ok (.error .overflow)
      else if exponent < 0 then .ok (.ok ⟨coeff, (IntTy.u8.cast nexp).toNat⟩)
      else
        match checkedMulPowTen coeff (IntTy.u8.cast exponent).toNat with
        | none => .ok (.error .overflow)
        | some c => .ok (.ok ⟨c, 0⟩)

theorem fromStr_eq (prof : Profile) (lit : List Nat) : fromStr prof lit = fTail prof (strToDec prof lit) := by
  unfold fromStr fTail
  generalize strToDec prof lit = r
  generalize IntTy.isize.plain prof = F
  generalize IntTy.u8.cast = G
  generalize checkedMulPowTen = H
  rfl

/-! ## fraction part -/

theorem frac_spec (a : Nat) (r1 : List Nat) (hb : ∀ x ∈ r1, x < 256) :
    mFrac (Nat.min a M128) r1 =
      (Nat.min (a * 10 ^ (sFrac r1).1.length + Spec.digitsVal (sFrac r1).1) M128, (sFrac r1).2.1, (sFrac r1).1.length) := by
  unfold mFrac sFrac
  split
  · rename_i r
    exact accumCoeff_gen a r (fun x hx => hb x (by simp [hx]))
  · simp [digitsVal_nil]

theorem sFrac_length (r1 : List Nat) : (sFrac r1).1.length + (sFrac r1).2.1.length ≤ r1.length := by
  unfold sFrac
  split
  · rename_i r
    have := span_length r
    simp only [List.length_cons]; omega
  · simp

theorem sFrac_mem (r1 : List Nat) : ∀ x ∈ (sFrac r1).2.1, x ∈ r1 := by
  unfold sFrac
  split
  · rename_i r
    intro x hx
    have h := span_append r
    have : x ∈ r := by rw [← h]; simp [hx]
    simp [this]
  · simp

/-! ## exponent part -/

def expRel (E e : Int) : Prop :=
  -(10 * EXP_LIMIT + 9) ≤ E ∧ E ≤ 10 * EXP_LIMIT + 9 ∧
    (E = e ∨ (EXP_LIMIT ≤ E ∧ EXP_LIMIT ≤ e) ∨ (E ≤ -EXP_LIMIT ∧ e ≤ -EXP_LIMIT))

theorem mExp_spec (prof : Profile) (s2 : List Nat) (hb : ∀ x ∈ s2, x < 256) :
    match sExp s2 with
    | none => mExp prof s2 = .ok (.error .invalid)
    | some (e, rest) =>
      (rest ≠ [] ∧ mExp prof s2 = .ok (.error .invalid)) ∨
      (∃ E, mExp prof s2 = .ok (.ok (E, rest)) ∧ expRel E e) := by
  have hl := expLimit_eq
  cases s2 with
  | nil =>
    simp only [sExp, mExp]
    refine Or.inr ⟨0, rfl, ?_⟩
    unfold expRel; rw [hl]; omega
  | cons c rest =>
    by_cases hc : c = 101 ∨ c = 69
    · simp only [sExp, mExp, hc, if_true]
      cases rest with
      | nil => simp [takeSign_nil, Spec.optSign, span_nil]
      | cons c' r' =>
        rw [takeSign_cons]
        generalize hsg : Spec.optSign (c' :: r') = sg
        have hbs : ∀ x ∈ sg.2, x < 256 := by
          intro x hx
          have := optSign_mem (c' :: r') x (by rw [hsg]; exact hx)
          exact hb x (by simp only [List.mem_cons] at this ⊢; right; exact this)
        obtain ⟨E, h1, h2, h3, h4⟩ := accumExp_spec sg.2 hbs 0 (by rw [hl]; omega)
        have h1' : accumExp 0 sg.2 = (E, (Spec.spanDigits sg.2).2) := h1
        have hlen := span_length sg.2
        simp only [Nat.zero_mul, Nat.zero_add] at h4
        obtain ⟨neg, t⟩ := sg
        simp only at h1' hlen h4 ⊢
        rw [h1']
        simp only
        by_cases hemp : (Spec.spanDigits t).1.isEmpty = true
        · have : (Spec.spanDigits t).1.length = 0 := by
            rw [List.isEmpty_iff] at hemp; rw [hemp]; rfl
          have hz : t.length - (Spec.spanDigits t).2.length = 0 := by omega
          simp only [hemp, if_true, hz]
          cases neg
          · simp
          · simp only [if_true]
            rw [isize_plain_ok prof (by omega) (by omega)]
        · have : (Spec.spanDigits t).1.length ≠ 0 := by
            intro h0; apply hemp; rw [List.isEmpty_iff]; exact List.length_eq_zero_iff.mp h0
          have hz : ¬ (t.length - (Spec.spanDigits t).2.length = 0) := by omega
          simp only [hemp, hz, if_false]
          cases neg
          · simp only [Bool.false_eq_true, if_false]
            refine Or.inr ⟨E, rfl, ?_⟩
            unfold expRel; rw [hl] at *
            refine ⟨by omega, by omega, ?_⟩
            rcases h4 with h4 | h4
            · left; exact h4
            · right; left; exact h4
          · simp only [if_true]
            rw [isize_plain_ok prof (by omega) (by omega)]
            refine Or.inr ⟨-E, rfl, ?_⟩
            unfold expRel; rw [hl] at *
            refine ⟨by omega, by omega, ?_⟩
            rcases h4 with h4 | h4
            · left; rw [h4]
            · right; right; omega
    · simp only [sExp, mExp, hc, if_false]
      simp

/-! ## the tail of `str_to_dec` and `from_str` -/

theorem m18 : ((Gen.MAX_N_FRAC_DIGITS : Nat) : Int) = 18 := rfl
theorem m38 : ((Gen.FROM_STR_MAX_EXP : Nat) : Int) = 38 := rfl

theorem mTail_frac (prof : Profile) (isNeg : Bool) (D f : Nat) (E : Int)
    (hE1 : -(10 * EXP_LIMIT + 9) ≤ E) (hE2 : E ≤ 10 * EXP_LIMIT + 9) (hf : f < 2 ^ 56)
    (h : -(E - f) > 18) :
    mTail prof isNeg D f (.ok (.ok (E, []))) = .ok (.error .fracLimit) := by
  have hl := expLimit_eq
  rw [hl] at hE1 hE2
  have hf' : f < 72057594037927936 := hf
  unfold mTail
  simp only [List.isEmpty_nil, Bool.not_true, Bool.false_eq_true, if_false]
  rw [isize_plain_ok prof (by omega) (by omega)]
  simp only
  rw [isize_plain_ok prof (by omega) (by omega)]
  simp only [m18, h, if_true]

theorem mTail_ok (prof : Profile) (isNeg : Bool) (D f : Nat) (E : Int)
    (hE1 : -(10 * EXP_LIMIT + 9) ≤ E) (hE2 : E ≤ 10 * EXP_LIMIT + 9) (hf : f < 2 ^ 56)
    (hD : (D : Int) ≤ I128_MAX) (h : ¬ -(E - f) > 18) :
    mTail prof isNeg D f (.ok (.ok (E, []))) = .ok (.ok ((if isNeg then -(D : Int) else D), E - f)) := by
  have hl := expLimit_eq
  rw [hl] at hE1 hE2
  have hf' : f < 72057594037927936 := hf
  unfold mTail
  simp only [List.isEmpty_nil, Bool.not_true, Bool.false_eq_true, if_false]
  rw [isize_plain_ok prof (by omega) (by omega)]
  simp only
  rw [isize_plain_ok prof (by omega) (by omega)]
  simp only [m18, h, if_false]
  rw [i128_cast_id (by omega) hD]
  cases isNeg
  · simp
  · simp only [if_true]
    unfold negI128
    rw [plainI128_ok prof]
    rw [fitsI128_iff]; unfold I128_MIN; unfold I128_MAX at hD ⊢; omega

theorem pow127 : (2 : Int) ^ 127 = 170141183460469231731687303715884105728 := by decide

/-- `D·10^k = 2^127` is impossible for `D ≤ i128::MAX` -/
theorem not_pow127 (D k : Nat) (hD : (D : Int) ≤ I128_MAX) :
    ((D * 10 ^ k : Nat) : Int) ≠ 170141183460469231731687303715884105728 := by
  unfold I128_MAX at hD
  cases k with
  | zero => simp; omega
  | succ k =>
    intro h
    have : ((D * 10 ^ (k + 1) : Nat) : Int) = ((D * 10 ^ k : Nat) : Int) * 10 := by
      push_cast; ring
    rw [this] at h
    omega

theorem final_agree (prof : Profile) (isNeg : Bool) (D f : Nat) (E e : Int)
    (hD : (D : Int) ≤ I128_MAX) (hf : f < 2 ^ 56) (hrel : expRel E e) :
    agree (sFinal isNeg D f e) (fTail prof (mTail prof isNeg D f (.ok (.ok (E, []))))) := by
  have hl := expLimit_eq
  obtain ⟨hE1, hE2, hcase⟩ := hrel
  have hf' : f < 72057594037927936 := hf
  by_cases hn : -(E - f) > 18
  · rw [mTail_frac prof isNeg D f E hE1 hE2 hf hn]
    rw [hl] at hE1 hE2 hcase
    have h1 : ¬ e ≥ (f : Int) := by omega
    have h2 : (f : Int) - e > 18 := by omega
    unfold sFinal fTail
    simp only [h1, h2, if_true, if_false]
    exact agree_bad _ (by decide)
  · rw [mTail_ok prof isNeg D f E hE1 hE2 hf hD hn]
    rw [hl] at hE1 hE2 hcase
    unfold fTail
    simp only
    rw [isize_plain_ok prof (by omega) (by omega)]
    simp only [m18, m38, hn, if_false]
    by_cases h38 : E - f > 38
    · -- exponent too large: zero or overflow
      have h1 : e ≥ (f : Int) := by omega
      have h2 : e - f > 38 := by omega
      unfold sFinal
      simp only [h38, h1, h2, if_true]
      by_cases hD0 : D = 0
      · subst hD0
        simp only [if_true]
        have : (if isNeg = true then -((0 : Nat) : Int) else ((0 : Nat) : Int)) = 0 := by cases isNeg <;> simp
        simp only [this, if_true]
        exact agree_ok 0 0
      · have : ¬ (if isNeg = true then -(D : Int) else (D : Int)) = 0 := by
          cases isNeg <;> simp <;> omega
        simp only [hD0, this, if_false]
        exact agree_bad _ (by decide)
    · have hEe : E = e := by omega
      subst hEe
      simp only [h38, if_false]
      by_cases hneg : E - f < 0
      · -- fractional digits
        have h1 : ¬ E ≥ (f : Int) := by omega
        have h2 : ¬ (f : Int) - E > 18 := by omega
        have h3 : (D : Int) ≤ 2 ^ 127 - 1 := by rw [pow127]; unfold I128_MAX at hD; omega
        unfold sFinal
        simp only [hneg, h1, h2, h3, if_true, if_false]
        rw [u8_cast_toNat (by omega) (by omega)]
        have : -(E - (f : Int)) = f - E := by omega
        rw [this]
        exact agree_ok _ _
      · have h1 : E ≥ (f : Int) := by omega
        have h2 : ¬ E - f > 38 := h38
        unfold sFinal
        simp only [hneg, h1, h2, if_true, if_false]
        rw [u8_cast_toNat (by omega) (by omega)]
        have hk : (E - (f : Int)).toNat ≤ 38 := by omega
        rw [checkedMulPowTen_eq _ _ hk]
        generalize (E - (f : Int)).toNat = k at *
        by_cases hD0 : D = 0
        · subst hD0
          have : (if isNeg = true then -((0 : Nat) : Int) else ((0 : Nat) : Int)) * 10 ^ k = 0 := by
            cases isNeg <;> simp
          simp only [this, if_true]
          rw [checkedI128_some (by decide)]
          exact agree_ok 0 0
        · simp only [hD0, if_false]
          have hcast : ((D * 10 ^ k : Nat) : Int) = (D : Int) * 10 ^ k := by push_cast; ring
          have hne := not_pow127 D k hD
          rw [pow127]
          by_cases hfit : ((D * 10 ^ k : Nat) : Int) ≤ 170141183460469231731687303715884105728 - 1
          · simp only [hfit, if_true]
            have hpos : (0 : Int) ≤ ((D * 10 ^ k : Nat) : Int) := Int.natCast_nonneg _
            rw [checkedI128_some]
            · cases isNeg
              · simp only [Bool.false_eq_true, if_false]; rw [hcast]; exact agree_ok _ _
              · simp only [if_true]; rw [hcast, Int.neg_mul]; exact agree_ok _ _
            · rw [fitsI128_iff]; unfold I128_MIN I128_MAX
              cases isNeg
              · simp only [Bool.false_eq_true, if_false]; rw [← hcast]; omega
              · simp only [if_true]; rw [Int.neg_mul, ← hcast]; omega
          · simp only [hfit, if_false]
            rw [checkedI128_none]
            · exact agree_bad _ (by decide)
            · have : ¬ fitsI128 ((if isNeg = true then -(D : Int) else (D : Int)) * 10 ^ k) = true := by
                rw [fitsI128_iff]; unfold I128_MIN I128_MAX
                cases isNeg
                · simp only [Bool.false_eq_true, if_false]; rw [← hcast]; omega
                · simp only [if_true]; rw [Int.neg_mul, ← hcast]; omega
              simpa using this

end Fpdec.ParseAux
