import Fpdec.Gen.KParse
import Fpdec.Kernels.Swar
import Fpdec.Kernels.Basic
import Fpdec.Model.Parser
import Fpdec.Lemmas.ParseStr

/-! Tie: the generated translation of the parser (`fpdec-core/src/parser.rs`: the cursor methods of `AsciiDecLit`, the digit
loops `skip_leading_zeroes`, `accum_coeff`, `accum_exp` — `while` / `while let` loops translated to fuel-bounded recursion — and
`str_to_dec`) equals the hand-written model, for every input shorter than `2^64` bytes (the fuel of the loops and the range of the
`usize` length arithmetic). -/

namespace Fpdec.Kernels
open Fpdec Fpdec.Model

theorem lit_new_eq (prof : Profile) (s : List Nat) : Gen.K.lit_new prof s = .ok s := rfl
theorem lit_is_empty_eq (prof : Profile) (s : List Nat) : Gen.K.lit_is_empty prof s = .ok s.isEmpty := rfl
theorem lit_len_eq (prof : Profile) (s : List Nat) : Gen.K.lit_len prof s = .ok s.length := rfl
theorem lit_first_eq' (prof : Profile) (s : List Nat) : Gen.K.lit_first prof s = .ok s.head? := rfl

theorem lit_skip_n_eq (prof : Profile) (s : List Nat) (n : Nat) (h : n ≤ s.length) :
    Gen.K.lit_skip_n prof s n = .ok (s.drop n) := by
  unfold Gen.K.lit_skip_n debugAssert
  have : decide (s.length ≥ n) = true := by simpa using h
  simp [this, bind_ok', pure_eq']

theorem lit_skip_1_cons (prof : Profile) (c : Nat) (s : List Nat) : Gen.K.lit_skip_1 prof (c :: s) = .ok s := by
  unfold Gen.K.lit_skip_1
  rw [lit_skip_n_eq prof (c :: s) 1 (by simp)]
  rfl

theorem lit_first_eq_eq (prof : Profile) (s : List Nat) (b : Nat) :
    Gen.K.lit_first_eq prof s b = .ok (decide (some b = s.head?)) := rfl

theorem skip_zeroes_loop_eq (prof : Profile) : ∀ (s : List Nat) (F : Nat), s.length < F →
    Gen.K.lit_skip_leading_zeroes_loop1 prof F s = .ok (skipLeadingZeroes s)
  | [], F + 1, _ => by
    unfold Gen.K.lit_skip_leading_zeroes_loop1 skipLeadingZeroes
    rw [lit_first_eq_eq]; simp [bind_ok', pure_eq']
  | c :: cs, F + 1, h => by
    unfold Gen.K.lit_skip_leading_zeroes_loop1 skipLeadingZeroes
    rw [lit_first_eq_eq]
    by_cases hc : c = 48
    · subst hc
      simp only [List.head?_cons, decide_true, bind_ok', if_true, lit_skip_1_cons]
      exact skip_zeroes_loop_eq prof cs F (by simpa using h)
    · have : decide (some 48 = (c :: cs).head?) = false := by
        simp only [List.head?_cons, Option.some.injEq, decide_eq_false_iff_not]
        exact fun h => hc h.symm
      simp only [this, bind_ok', Bool.false_eq_true, if_false, hc, pure_eq']

theorem lit_skip_leading_zeroes_eq (prof : Profile) (s : List Nat) (h : s.length < 2 ^ 64) :
    Gen.K.lit_skip_leading_zeroes prof s = .ok (skipLeadingZeroes s) := by
  unfold Gen.K.lit_skip_leading_zeroes
  rw [skip_zeroes_loop_eq prof s _ (by simpa using h)]

theorem leBytes_foldr (l : List Nat) : l.foldr (fun b acc => b + 256 * acc) 0 = leBytes l := by
  induction l with
  | nil => rfl
  | cons b bs ih => simp only [List.foldr_cons, leBytes, ih]

theorem lit_read_u64_eq (prof : Profile) (s : List Nat) : Gen.K.lit_read_u64 prof s = .ok (readU64 s) := by
  unfold Gen.K.lit_read_u64 readU64 Rt.readU64LE
  rw [lit_len_eq, leBytes_foldr]
  simp only [bind_ok', pure_eq']
  by_cases h : s.length ≥ 8 <;> simp [h]

/-! ### the digit loops -/

theorem sat_mul (a b : Nat) : Rt.sat 128 ((a : Int) * (b : Int)) = satMulU128 a b := by
  unfold Rt.sat satMulU128 U128_MOD
  have e : ((a : Int) * (b : Int)) = ((a * b : Nat) : Int) := by push_cast; rfl
  rw [e]
  have h0 : ¬ (((a * b : Nat) : Int) < 0) := by omega
  have e2 : (2 : Int) ^ 128 = ((340282366920938463463374607431768211456 : Nat) : Int) := by decide
  rw [if_neg h0, e2]
  by_cases h : a * b < 340282366920938463463374607431768211456
  · have : ((a * b : Nat) : Int) < ((340282366920938463463374607431768211456 : Nat) : Int) := by omega
    rw [if_pos this, if_pos h, Int.toNat_natCast]
  · have : ¬ ((a * b : Nat) : Int) < ((340282366920938463463374607431768211456 : Nat) : Int) := by omega
    rw [if_neg this, if_neg h]

theorem sat_add (a b : Nat) : Rt.sat 128 ((a : Int) + (b : Int)) = satAddU128 a b := by
  unfold Rt.sat satAddU128 U128_MOD
  have e : ((a : Int) + (b : Int)) = ((a + b : Nat) : Int) := by push_cast; rfl
  rw [e]
  have h0 : ¬ (((a + b : Nat) : Int) < 0) := by omega
  have e2 : (2 : Int) ^ 128 = ((340282366920938463463374607431768211456 : Nat) : Int) := by decide
  rw [if_neg h0, e2]
  by_cases h : a + b < 340282366920938463463374607431768211456
  · have : ((a + b : Nat) : Int) < ((340282366920938463463374607431768211456 : Nat) : Int) := by omega
    rw [if_pos this, if_pos h, Int.toNat_natCast]
  · have : ¬ ((a + b : Nat) : Int) < ((340282366920938463463374607431768211456 : Nat) : Int) := by omega
    rw [if_neg this, if_neg h]

theorem readU64_some_len {s : List Nat} {k : Nat} (h : readU64 s = some k) : 8 ≤ s.length := by
  unfold readU64 at h
  by_cases h8 : s.length ≥ 8
  · exact h8
  · simp [h8] at h

theorem accum_chunks_loop_eq (prof : Profile) : ∀ (F f coeff : Nat) (s : List Nat), s.length < F → s.length ≤ f →
    Gen.K.lit_accum_coeff_loop1 prof F coeff s = .ok (accumChunks f coeff s)
  | 0, _, _, _, h, _ => absurd h (Nat.not_lt_zero _)
  | F + 1, f, coeff, s, hF, hf => by
    unfold Gen.K.lit_accum_coeff_loop1
    rw [lit_read_u64_eq, bind_ok']
    cases hr : readU64 s with
    | none =>
      cases f with
      | zero => rfl
      | succ f' => unfold accumChunks; rw [hr]; rfl
    | some k =>
      have h8 := readU64_some_len hr
      obtain ⟨f', rfl⟩ : ∃ f', f = f' + 1 := ⟨f - 1, by omega⟩
      unfold accumChunks
      rw [hr]
      simp only [chunk_contains_8_digits_eq, bind_ok']
      by_cases hc : chunkContains8Digits k = true
      · simp only [hc, if_true, chunk_to_u64_eq, bind_ok', lit_skip_n_eq prof s 8 h8]
        have e1 : ((coeff : Int) * 100000000) = ((coeff : Int) * ((100000000 : Nat) : Int)) := rfl
        rw [e1, sat_mul, sat_add]
        exact accum_chunks_loop_eq prof F f' _ (s.drop 8) (by rw [List.length_drop]; omega) (by rw [List.length_drop]; omega)
      · simp only [hc, Bool.false_eq_true, if_false, pure_eq']

theorem digitVal_eq (c : Nat) : Rt.wrapU 8 (c + 2 ^ 8 - Rt.wrapU 8 48) = digitVal c := rfl

theorem accum_digits_loop_eq (prof : Profile) : ∀ (s : List Nat) (F coeff : Nat), s.length < F →
    Gen.K.lit_accum_coeff_loop2 prof F coeff s = .ok (accumDigits coeff s)
  | _, 0, _, h => absurd h (Nat.not_lt_zero _)
  | [], F + 1, coeff, _ => by
    unfold Gen.K.lit_accum_coeff_loop2 accumDigits
    rw [lit_first_eq', bind_ok']; rfl
  | c :: cs, F + 1, coeff, h => by
    unfold Gen.K.lit_accum_coeff_loop2 accumDigits
    rw [lit_first_eq', bind_ok']
    simp only [List.head?_cons, digitVal_eq]
    by_cases hd : digitVal c < 10
    · simp only [hd, decide_true, if_true, lit_skip_1_cons, bind_ok']
      have e1 : ((coeff : Int) * 10) = ((coeff : Int) * ((10 : Nat) : Int)) := rfl
      rw [e1, sat_mul, sat_add]
      exact accum_digits_loop_eq prof cs F _ (by simpa using h)
    · simp only [hd, decide_false, Bool.false_eq_true, if_false, pure_eq']

theorem accumChunks_len : ∀ (f c : Nat) (s : List Nat), (accumChunks f c s).2.length ≤ s.length
  | 0, _, _ => Nat.le_refl _
  | f + 1, c, s => by
    unfold accumChunks
    cases readU64 s with
    | none => exact Nat.le_refl _
    | some k =>
      by_cases hc : chunkContains8Digits k = true
      · simp only [hc, if_true]
        exact Nat.le_trans (accumChunks_len f _ (s.drop 8)) (by rw [List.length_drop]; omega)
      · simp only [hc, Bool.false_eq_true, if_false]; exact Nat.le_refl _

theorem accumDigits_len : ∀ (s : List Nat) (c : Nat), (accumDigits c s).2.length ≤ s.length
  | [], _ => Nat.le_refl _
  | x :: xs, c => by
    unfold accumDigits
    by_cases hd : digitVal x < 10
    · simp only [hd, if_true]
      exact Nat.le_trans (accumDigits_len xs _) (by simp)
    · simp only [hd, if_false]; exact Nat.le_refl _

theorem accumCoeff_len (c : Nat) (s : List Nat) : (accumCoeff c s).2.1.length ≤ s.length := by
  unfold accumCoeff
  exact Nat.le_trans (accumDigits_len _ _) (accumChunks_len _ _ _)

theorem accumCoeff_count (c : Nat) (s : List Nat) : (accumCoeff c s).2.2 = s.length - (accumCoeff c s).2.1.length := rfl

theorem plainU64_sub (prof : Profile) (a b : Nat) (h : b ≤ a) (ha : a < 2 ^ 64) :
    Rt.plainU 64 prof ((a : Int) - (b : Int)) = .ok (a - b) := by
  unfold Rt.plainU
  have e : ((a : Int) - (b : Int)) = ((a - b : Nat) : Int) := by omega
  have e2 : (2 : Int) ^ 64 = ((18446744073709551616 : Nat) : Int) := by decide
  have p : (2 : Nat) ^ 64 = 18446744073709551616 := by decide
  rw [e, e2]
  have : 0 ≤ ((a - b : Nat) : Int) ∧ ((a - b : Nat) : Int) < ((18446744073709551616 : Nat) : Int) := by omega
  rw [if_pos this, Int.toNat_natCast]

theorem lit_accum_coeff_eq (prof : Profile) (s : List Nat) (coeff : Nat) (h : s.length < 2 ^ 64) :
    Gen.K.lit_accum_coeff prof s coeff =
      .ok ((accumCoeff coeff s).2.1, (accumCoeff coeff s).1, (accumCoeff coeff s).2.2) := by
  have hlen := accumCoeff_len coeff s
  unfold accumCoeff at hlen ⊢
  unfold Gen.K.lit_accum_coeff
  have hF : s.length < 18446744073709551616 := by simpa using h
  rw [lit_len_eq, bind_ok', accum_chunks_loop_eq prof _ s.length coeff s hF (Nat.le_refl _), bind_ok']
  have h1 := accumChunks_len s.length coeff s
  generalize accumChunks s.length coeff s = r1 at *
  obtain ⟨c1, s1⟩ := r1
  simp only at h1 hlen ⊢
  rw [accum_digits_loop_eq prof s1 _ c1 (by omega), bind_ok']
  generalize accumDigits c1 s1 = r2 at *
  obtain ⟨c2, s2⟩ := r2
  simp only at hlen ⊢
  rw [lit_len_eq, bind_ok', plainU64_sub prof s.length s2.length hlen h, bind_ok', pure_eq']

theorem isize_cast_digit (d : Nat) (h : d < 10) : IntTy.isize.cast ((d : Nat) : Int) = (d : Int) := by
  unfold IntTy.cast IntTy.wrap IntTy.isize
  simp only [if_true]
  have e1 : (2 : Int) ^ (64 - 1) = 9223372036854775808 := by decide
  have e2 : (2 : Int) ^ 64 = 18446744073709551616 := by decide
  rw [e1, e2]; omega

theorem exp_limit_eq : EXP_LIMIT = 92233720368547758 := by decide

theorem accum_exp_loop_eq (prof : Profile) : ∀ (s : List Nat) (F : Nat) (exp : Int), s.length < F →
    Gen.K.lit_accum_exp_loop1 prof F exp s = .ok (accumExp exp s)
  | _, 0, _, h => absurd h (Nat.not_lt_zero _)
  | [], F + 1, exp, _ => by
    unfold Gen.K.lit_accum_exp_loop1 accumExp
    rw [lit_first_eq', bind_ok']; rfl
  | c :: cs, F + 1, exp, h => by
    unfold Gen.K.lit_accum_exp_loop1 accumExp
    rw [lit_first_eq', bind_ok']
    simp only [List.head?_cons, digitVal_eq]
    by_cases hd : digitVal c < 10
    · simp only [hd, decide_true, if_true, lit_skip_1_cons, bind_ok', isize_cast_digit _ hd, exp_limit_eq]
      by_cases he : exp < 92233720368547758
      · simp only [he, decide_true, if_true, pure_eq', bind_ok']
        exact accum_exp_loop_eq prof cs F _ (by simpa using h)
      · simp only [he, decide_false, Bool.false_eq_true, if_false, pure_eq', bind_ok']
        exact accum_exp_loop_eq prof cs F _ (by simpa using h)
    · simp only [hd, decide_false, Bool.false_eq_true, if_false, pure_eq']

theorem accumExp_len : ∀ (s : List Nat) (e : Int), (accumExp e s).2.length ≤ s.length
  | [], _ => Nat.le_refl _
  | x :: xs, e => by
    unfold accumExp
    by_cases hd : digitVal x < 10
    · simp only [hd, if_true]
      exact Nat.le_trans (accumExp_len xs _) (by simp)
    · simp only [hd, if_false]; exact Nat.le_refl _

theorem lit_accum_exp_eq (prof : Profile) (s : List Nat) (exp : Int) (h : s.length < 2 ^ 64) :
    Gen.K.lit_accum_exp prof s exp = .ok ((accumExp exp s).2, (accumExp exp s).1, s.length - (accumExp exp s).2.length) := by
  unfold Gen.K.lit_accum_exp
  have hF : s.length < 18446744073709551616 := by simpa using h
  have hl := accumExp_len s exp
  rw [lit_len_eq, bind_ok', accum_exp_loop_eq prof s _ exp hF, bind_ok']
  generalize accumExp exp s = r at *
  obtain ⟨e2, s2⟩ := r
  simp only at hl ⊢
  rw [lit_len_eq, bind_ok', plainU64_sub prof s.length s2.length hl h, bind_ok', pure_eq']

/-! ### `str_to_dec` -/

theorem bind_eq_of_eq {α β} {x : Outcome α} {v : α} (h : x = .ok v) (f : α → Outcome β) : (x >>= f) = f v := by
  rw [h, bind_ok']

def signOf (c : Nat) : Bool := decide (c = 45)
def afterSign (c : Nat) (cs : List Nat) : List Nat := if c = 45 ∨ c = 43 then cs else c :: cs

theorem takeSign_cons (c : Nat) (cs : List Nat) : takeSign (c :: cs) = some (signOf c, afterSign c cs) := by
  unfold takeSign signOf afterSign
  by_cases h1 : c = 45
  · simp [h1]
  · by_cases h2 : c = 43
    · simp [h2]
    · simp [h1, h2]

theorem afterSign_len (c : Nat) (cs : List Nat) : (afterSign c cs).length ≤ cs.length + 1 := by
  unfold afterSign; split <;> simp

theorem skipLeadingZeroes_len : ∀ s : List Nat, (skipLeadingZeroes s).length ≤ s.length
  | [] => Nat.le_refl _
  | c :: cs => by
    unfold skipLeadingZeroes
    split
    · exact Nat.le_trans (skipLeadingZeroes_len cs) (by simp)
    · exact Nat.le_refl _

theorem mFrac_len (c : Nat) (s1 : List Nat) :
    (ParseAux.mFrac c s1).2.1.length ≤ s1.length ∧ (ParseAux.mFrac c s1).2.2 ≤ s1.length := by
  unfold ParseAux.mFrac
  split
  · rename_i rest
    have := accumCoeff_len c rest
    rw [accumCoeff_count]
    simp only [List.length_cons]
    omega
  · simp

theorem plainU64_add (prof : Profile) (a b : Nat) (h : a + b < 2 ^ 64) :
    Rt.plainU 64 prof ((a : Int) + (b : Int)) = .ok (a + b) := by
  unfold Rt.plainU
  have e : ((a : Int) + (b : Int)) = ((a + b : Nat) : Int) := by omega
  have e2 : (2 : Int) ^ 64 = ((18446744073709551616 : Nat) : Int) := by decide
  have p : (2 : Nat) ^ 64 = 18446744073709551616 := by decide
  rw [e, e2]
  have : 0 ≤ ((a + b : Nat) : Int) ∧ ((a + b : Nat) : Int) < ((18446744073709551616 : Nat) : Int) := by omega
  rw [if_pos this, Int.toNat_natCast]

theorem isize_cast_nat (n : Nat) (h : n < 2 ^ 63) : IntTy.isize.cast ((n : Nat) : Int) = (n : Int) := by
  unfold IntTy.cast IntTy.wrap IntTy.isize
  simp only [if_true]
  have e1 : (2 : Int) ^ (64 - 1) = 9223372036854775808 := by decide
  have e2 : (2 : Int) ^ 64 = 18446744073709551616 := by decide
  have p : (2 : Nat) ^ 63 = 9223372036854775808 := by decide
  rw [e1, e2]; omega

theorem tail_eq (prof : Profile) (isNeg : Bool) (coeff2 nFrac : Nat) (exp : Int) (s5 : List Nat) (hn : nFrac < 2 ^ 63) :
    (if (!s5.isEmpty) = true then pure (Except.error ParseErr.invalid)
      else do
        let t23 ← IntTy.isize.plain prof (exp - IntTy.isize.cast ↑nFrac)
        let t24 ← IntTy.isize.plain prof (-t23)
        if decide (t24 > IntTy.isize.cast ↑Gen.MAX_N_FRAC_DIGITS) = true then pure (Except.error ParseErr.fracLimit)
          else
            if isNeg = true then do
              let t25 ← negI128 prof (IntTy.i128.cast ↑coeff2)
              pure (Except.ok (t25, t23))
            else pure (Except.ok (IntTy.i128.cast ↑coeff2, t23)) : Outcome (Except ParseErr (Int × Int))) =
      ParseAux.mTail prof isNeg coeff2 nFrac (.ok (.ok (exp, s5))) := by
  unfold ParseAux.mTail
  simp only []
  have e18 : IntTy.isize.cast ((Gen.MAX_N_FRAC_DIGITS : Nat) : Int) = ((Gen.MAX_N_FRAC_DIGITS : Nat) : Int) :=
    isize_cast_nat _ (by decide)
  rw [isize_cast_nat nFrac hn, e18]
  by_cases h5 : (!s5.isEmpty) = true
  · simp only [h5, if_true, pure_eq']
  simp only [h5, Bool.false_eq_true, if_false]
  cases IntTy.isize.plain prof (exp - ↑nFrac) with
  | panic k => rfl
  | ok e1 =>
    simp only [bind_ok']
    cases IntTy.isize.plain prof (-e1) with
    | panic k => rfl
    | ok e2 =>
      simp only [bind_ok']
      by_cases hl : e2 > ((Gen.MAX_N_FRAC_DIGITS : Nat) : Int)
      · simp only [hl, decide_true, if_true, pure_eq']
      simp only [hl, decide_false, Bool.false_eq_true, if_false]
      cases isNeg with
      | false => simp only [Bool.false_eq_true, if_false, pure_eq']
      | true =>
        simp only [if_true]
        cases negI128 prof (IntTy.i128.cast ↑coeff2) with
        | panic k => rfl
        | ok c => simp only [bind_ok', pure_eq']

/-- `str_to_dec` as translated = the model, for every input shorter than `2^63` bytes (Rust: no slice is longer than `isize::MAX`) -/
theorem str_to_dec_eq (prof : Profile) (lit : List Nat) (h63 : lit.length < 2 ^ 63) :
    Gen.K.str_to_dec prof lit = strToDec prof lit := by
  have h : lit.length < 2 ^ 64 := Nat.lt_trans h63 (by decide)
  rw [ParseAux.strToDec_eq]
  unfold Gen.K.str_to_dec
  simp only [lit_new_eq, bind_ok', lit_first_eq']
  cases lit with
  | nil => rfl
  | cons c cs =>
    rw [takeSign_cons]
    simp only [List.head?_cons]
    refine (bind_eq_of_eq (v := (signOf c, afterSign c cs)) ?_ _).trans ?_
    · unfold signOf afterSign
      by_cases h1 : c = 45
      · simp [h1, lit_skip_1_cons, bind_ok', pure_eq']
      · by_cases h2 : c = 43
        · simp [h2, lit_skip_1_cons, bind_ok', pure_eq']
        · simp [h1, h2, pure_eq']
    · have hs : (afterSign c cs).length < 2 ^ 64 := Nat.lt_of_le_of_lt (afterSign_len c cs) (by simpa using h)
      have hs63 : (afterSign c cs).length < 2 ^ 63 := Nat.lt_of_le_of_lt (afterSign_len c cs) (by simpa using h63)
      generalize signOf c = isNeg
      generalize afterSign c cs = s at hs hs63 ⊢
      simp only [lit_is_empty_eq, bind_ok']
      by_cases he : s.isEmpty = true
      · simp only [he, if_true, pure_eq']
      simp only [he, Bool.false_eq_true, if_false, lit_len_eq, bind_ok', lit_skip_leading_zeroes_eq prof s hs]
      have hs' : (skipLeadingZeroes s).length < 2 ^ 64 := Nat.lt_of_le_of_lt (skipLeadingZeroes_len s) hs
      have hs'63 : (skipLeadingZeroes s).length < 2 ^ 63 := Nat.lt_of_le_of_lt (skipLeadingZeroes_len s) hs63
      generalize skipLeadingZeroes s = s' at hs' hs'63 ⊢
      by_cases he' : s'.isEmpty = true
      · simp only [he', if_true, pure_eq']
      simp only [he', Bool.false_eq_true, if_false, lit_accum_coeff_eq prof s' 0 hs', bind_ok']
      have h1 := accumCoeff_len 0 s'
      have h1c := accumCoeff_count 0 s'
      generalize accumCoeff 0 s' = r1 at h1 h1c ⊢
      obtain ⟨coeff1, s1, nInt⟩ := r1
      simp only at h1 h1c ⊢
      refine (bind_eq_of_eq (v := ((ParseAux.mFrac coeff1 s1).2.1, (ParseAux.mFrac coeff1 s1).1, (ParseAux.mFrac coeff1 s1).2.2)) ?_ _).trans ?_
      · unfold ParseAux.mFrac
        cases s1 with
        | nil => rfl
        | cons c1 rest =>
          by_cases hc : c1 = 46
          · subst hc
            have hr : rest.length < 2 ^ 64 := by simp only [List.length_cons] at h1; omega
            simp only [List.head?_cons, decide_true, if_true, lit_skip_1_cons, bind_ok', lit_accum_coeff_eq prof rest coeff1 hr, pure_eq']
          · simp [hc, pure_eq', bind_ok']
      · obtain ⟨hf1, hf2⟩ := mFrac_len coeff1 s1
        generalize ParseAux.mFrac coeff1 s1 = r2 at hf1 hf2 ⊢
        obtain ⟨coeff2, s2, nFrac⟩ := r2
        simp only at hf1 hf2 ⊢
        rw [plainU64_add prof nInt nFrac (by omega), bind_ok']
        have hnf : nFrac < 2 ^ 63 := by omega
        by_cases hz : nInt + nFrac = 0 ∧ (!decide (s'.length < s.length)) = true
        · have : (decide (nInt + nFrac = 0) && !decide (s'.length < s.length)) = true := by simpa using hz
          rw [if_pos this, if_pos hz, pure_eq']
        have hz' : ¬ ((decide (nInt + nFrac = 0) && !decide (s'.length < s.length)) = true) := by
          simpa using hz
        rw [if_neg hz', if_neg hz]
        have emax : (IntTy.u128.cast I128_MAX).toNat = 170141183460469231731687303715884105727 := by decide
        rw [emax]
        by_cases hov : (coeff2 : Int) > I128_MAX
        · have : coeff2 > 170141183460469231731687303715884105727 := by unfold I128_MAX at hov; omega
          rw [if_pos (by simpa using this), if_pos hov, pure_eq']
        have hov' : ¬ coeff2 > 170141183460469231731687303715884105727 := by unfold I128_MAX at hov; omega
        rw [if_neg (by simpa using hov'), if_neg hov]
        have hs2 : s2.length < 2 ^ 64 := by omega
        cases s2 with
        | nil =>
          simp only [List.head?_nil]
          unfold ParseAux.mExp
          exact tail_eq prof isNeg coeff2 nFrac 0 [] hnf
        | cons c2 rest =>
          unfold ParseAux.mExp
          simp only [List.head?_cons]
          by_cases hc : c2 = 101 ∨ c2 = 69
          · have hb : (decide (c2 = 101) || decide (c2 = 69)) = true := by simpa using hc
            rw [if_pos hb, if_pos hc, lit_skip_1_cons, bind_ok']
            cases rest with
            | nil => rfl
            | cons c3 rest3 =>
              rw [takeSign_cons]
              simp only [List.head?_cons]
              refine (bind_eq_of_eq (v := (signOf c3, afterSign c3 rest3)) ?_ _).trans ?_
              · unfold signOf afterSign
                by_cases h1 : c3 = 45
                · simp [h1, lit_skip_1_cons, bind_ok', pure_eq']
                · by_cases h2 : c3 = 43
                  · simp [h2, lit_skip_1_cons, bind_ok', pure_eq']
                  · simp [h1, h2, pure_eq']
              · have hs3 : (afterSign c3 rest3).length < 2 ^ 64 := by
                  have := afterSign_len c3 rest3
                  simp only [List.length_cons] at hs2
                  omega
                generalize signOf c3 = expNeg
                generalize afterSign c3 rest3 = s3 at hs3 ⊢
                simp only [lit_accum_exp_eq prof s3 0 hs3, bind_ok']
                generalize accumExp 0 s3 = r3
                obtain ⟨e3, s4⟩ := r3
                simp only []
                have fin : ∀ e : Int, (if decide (s3.length - s4.length = 0) = true then pure (Except.error ParseErr.invalid)
                    else
                      if (!s4.isEmpty) = true then pure (Except.error ParseErr.invalid)
                      else do
                        let t23 ← IntTy.isize.plain prof (e - IntTy.isize.cast ↑nFrac)
                        let t24 ← IntTy.isize.plain prof (-t23)
                        if decide (t24 > IntTy.isize.cast ↑Gen.MAX_N_FRAC_DIGITS) = true then pure (Except.error ParseErr.fracLimit)
                          else
                            if isNeg = true then do
                              let t25 ← negI128 prof (IntTy.i128.cast ↑coeff2)
                              pure (Except.ok (t25, t23))
                            else pure (Except.ok (IntTy.i128.cast ↑coeff2, t23)) : Outcome (Except ParseErr (Int × Int))) =
                    ParseAux.mTail prof isNeg coeff2 nFrac
                      (if s3.length - s4.length = 0 then Outcome.ok (Except.error ParseErr.invalid)
                       else Outcome.ok (Except.ok (e, s4))) := by
                  intro e
                  by_cases hn0 : s3.length - s4.length = 0
                  · rw [if_pos (by simpa using hn0), if_pos hn0]; rfl
                  · rw [if_neg (by simpa using hn0), if_neg hn0]
                    exact tail_eq prof isNeg coeff2 nFrac e s4 hnf
                cases expNeg with
                | false =>
                  simp only [Bool.false_eq_true, if_false, pure_eq', bind_ok']
                  exact fin e3
                | true =>
                  simp only [if_true]
                  cases IntTy.isize.plain prof (-e3) with
                  | panic k => rfl
                  | ok e =>
                    simp only [bind_ok', pure_eq']
                    exact fin e
          · have hb : ¬ ((decide (c2 = 101) || decide (c2 = 69)) = true) := by simpa using hc
            rw [if_neg hb, if_neg hc]
            rfl

end Fpdec.Kernels
