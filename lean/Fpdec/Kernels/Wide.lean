import Fpdec.Gen.KWide
import Fpdec.Kernels.Basic
import Fpdec.Model.Core

/-! Tie: the generated translation of the 128×128→256 bit multiplication equals the hand-written model. -/

namespace Fpdec.Kernels
open Fpdec Fpdec.Model

theorem wrapU_128 (n : Nat) : Rt.wrapU 128 n = wrapU128 n := by
  unfold Rt.wrapU wrapU128; rfl

theorem u128_hi_eq (prof : Profile) (u : Nat) : Gen.K.u128_hi prof u = .ok (u128Hi u) := rfl
theorem u128_lo_eq (prof : Profile) (u : Nat) : Gen.K.u128_lo prof u = .ok (u128Lo u) := rfl

theorem u128_mul_u128_eq (prof : Profile) (x y : Nat) :
    Gen.K.u128_mul_u128 prof x y = u128MulU128 prof x y := by
  unfold Gen.K.u128_mul_u128 u128MulU128
  simp only [wrapU_128, u128_hi_eq, u128_lo_eq]
  repeat rw [Outcome.bind_ok]
  refine bind_congr _ (fun t5 => ?_)
  repeat rw [Outcome.bind_ok]
  refine bind_congr _ (fun t7 => ?_)
  repeat rw [Outcome.bind_ok]
  refine bind_congr _ (fun t9 => ?_)
  repeat rw [Outcome.bind_ok]
  refine bind_congr _ (fun t11 => ?_)
  repeat rw [Outcome.bind_ok]
  refine bind_congr _ (fun t13 => ?_)
  repeat rw [Outcome.bind_ok]
  refine bind_congr _ (fun t15 => ?_)
  refine bind_congr _ (fun t16 => ?_)
  repeat rw [Outcome.bind_ok]

end Fpdec.Kernels
