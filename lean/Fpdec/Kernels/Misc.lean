import Fpdec.Gen.KMisc
import Fpdec.Kernels.Cmp
import Fpdec.Kernels.FromStr
import Fpdec.Kernels.IntoFloat
import Fpdec.Model.Float

/-! Tie: the thin forwarders — `Ord::cmp`, `Default::default`, `TryFrom<&str>` / `TryFrom<String>`, `From<Decimal> for f64 / f32`. -/

namespace Fpdec.Kernels
open Fpdec Fpdec.Model

theorem decimal_cmp_eq (prof : Profile) (x y : Dec) (hp : x.nfrac < 256) (hq : y.nfrac < 256) :
    Gen.K.decimal_cmp prof x y = Model.cmp x y := by
  unfold Gen.K.decimal_cmp Model.cmp
  rw [decimal_partial_cmp_eq prof x y hp hq, bind_ok']
  cases partialCmp x y <;> rfl

theorem decimal_default_eq (prof : Profile) : Gen.K.decimal_default prof = .ok Dec.ZERO := rfl

theorem decimal_try_from_str_eq (prof : Profile) (lit : List Nat) : Gen.K.decimal_try_from_str prof lit = fromStr prof lit := by
  unfold Gen.K.decimal_try_from_str
  rw [decimal_from_str_eq]

theorem decimal_try_from_string_eq (prof : Profile) (lit : List Nat) :
    Gen.K.decimal_try_from_string prof lit = fromStr prof lit := by
  unfold Gen.K.decimal_try_from_string
  rw [decimal_from_str_eq]

theorem f64_from_eq (prof : Profile) (d : Dec) : Gen.K.f64_from prof d = intoFloat prof Spec.FloatFmt.f64 d := by
  unfold Gen.K.f64_from intoFloat
  by_cases h : d.nfrac = 0 ∨ d.coeff = 0
  · have hb : (decide (d.nfrac = 0) || decide (d.coeff = 0)) = true := by simpa using h
    rw [if_pos hb, if_pos h]; rfl
  · have hb : ¬ ((decide (d.nfrac = 0) || decide (d.coeff = 0)) = true) := by simpa using h
    rw [if_neg hb, if_neg h, f64_from_decimal_eq]

theorem f32_from_eq (prof : Profile) (d : Dec) : Gen.K.f32_from prof d = intoFloat prof Spec.FloatFmt.f32 d := by
  unfold Gen.K.f32_from intoFloat
  by_cases h : d.nfrac = 0 ∨ d.coeff = 0
  · have hb : (decide (d.nfrac = 0) || decide (d.coeff = 0)) = true := by simpa using h
    rw [if_pos hb, if_pos h]; rfl
  · have hb : ¬ ((decide (d.nfrac = 0) || decide (d.coeff = 0)) = true) := by simpa using h
    rw [if_neg hb, if_neg h, f32_from_decimal_eq]

end Fpdec.Kernels
