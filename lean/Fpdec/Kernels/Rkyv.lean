import Fpdec.Gen.KRkyv
import Fpdec.Gen.KHash
import Fpdec.Kernels.Cmp
import Fpdec.Kernels.Ratio
import Fpdec.Model.Ratio

/-! Ties for the feature-gated glue: the `rkyv` impls (comparisons of `ArchivedDecimal` with itself and with `Decimal`, the
`impl_basics` predicates, the accessors, `Archive::resolve` / `Serialize` / `Deserialize` of the `packed` layout) and `impl Hash`.
An `ArchivedDecimal` is carried as the pair of its two fields, i.e. as a `Model.Dec` (both layouts — derived and hand-written
`#[repr(C, packed)]` — have exactly the fields `coeff: i128`, `n_frac_digits: u8`). -/

namespace Fpdec.Kernels
open Fpdec Fpdec.Model

theorem archived_eq_archived_eq (prof : Profile) (x y : Dec) (hp : x.nfrac < 256) (hq : y.nfrac < 256) :
    Gen.K.archived_eq_archived prof x y = .ok (decimalEq x y) := by
  unfold Gen.K.archived_eq_archived decimalEq
  rw [checked_adjust_coeffs_eq prof x.coeff x.nfrac y.coeff y.nfrac hp hq]
  simp only [bind_ok']
  generalize checkedAdjustCoeffs x.coeff x.nfrac y.coeff y.nfrac = r
  obtain ⟨a, b⟩ := r
  cases a <;> cases b <;> rfl

theorem archived_eq_decimal_eq (prof : Profile) (x y : Dec) (hp : x.nfrac < 256) (hq : y.nfrac < 256) :
    Gen.K.archived_eq_decimal prof x y = .ok (decimalEq x y) := by
  unfold Gen.K.archived_eq_decimal decimalEq
  rw [checked_adjust_coeffs_eq prof x.coeff x.nfrac y.coeff y.nfrac hp hq]
  simp only [bind_ok']
  generalize checkedAdjustCoeffs x.coeff x.nfrac y.coeff y.nfrac = r
  obtain ⟨a, b⟩ := r
  cases a <;> cases b <;> rfl

/-- `Decimal == ArchivedDecimal` forwards with the operands exchanged -/
theorem decimal_eq_archived_eq (prof : Profile) (x y : Dec) (hp : x.nfrac < 256) (hq : y.nfrac < 256) :
    Gen.K.decimal_eq_archived prof x y = .ok (decimalEq y x) := by
  unfold Gen.K.decimal_eq_archived
  rw [archived_eq_decimal_eq prof y x hq hp]

theorem archived_cmp_archived_eq (prof : Profile) (x y : Dec) (hp : x.nfrac < 256) (hq : y.nfrac < 256) :
    Gen.K.archived_cmp_archived prof x y = .ok (partialCmp x y) := by
  unfold Gen.K.archived_cmp_archived partialCmp
  rw [checked_adjust_coeffs_eq prof x.coeff x.nfrac y.coeff y.nfrac hp hq]
  simp only [bind_ok']
  generalize checkedAdjustCoeffs x.coeff x.nfrac y.coeff y.nfrac = r
  obtain ⟨a, b⟩ := r
  cases a <;> cases b
  · rfl
  · simp only []
    by_cases h : x.coeff > 0 <;> simp [h]
  · simp only []
    by_cases h : y.coeff < 0 <;> simp [h]
  · rfl

theorem archived_cmp_decimal_eq (prof : Profile) (x y : Dec) (hp : x.nfrac < 256) (hq : y.nfrac < 256) :
    Gen.K.archived_cmp_decimal prof x y = .ok (partialCmp x y) := by
  unfold Gen.K.archived_cmp_decimal partialCmp
  rw [checked_adjust_coeffs_eq prof x.coeff x.nfrac y.coeff y.nfrac hp hq]
  simp only [bind_ok']
  generalize checkedAdjustCoeffs x.coeff x.nfrac y.coeff y.nfrac = r
  obtain ⟨a, b⟩ := r
  cases a <;> cases b
  · rfl
  · simp only []
    by_cases h : x.coeff > 0 <;> simp [h]
  · simp only []
    by_cases h : y.coeff < 0 <;> simp [h]
  · rfl

/-- `Decimal.partial_cmp(&ArchivedDecimal)` is the reversed result of the exchanged comparison -/
theorem decimal_cmp_archived_eq (prof : Profile) (x y : Dec) (hp : x.nfrac < 256) (hq : y.nfrac < 256) :
    Gen.K.decimal_cmp_archived prof x y = .ok ((partialCmp y x).map Ordering.swap) := by
  unfold Gen.K.decimal_cmp_archived
  rw [archived_cmp_decimal_eq prof y x hq hp]
  rfl

theorem archived_ord_cmp_eq (prof : Profile) (x y : Dec) (hp : x.nfrac < 256) (hq : y.nfrac < 256) :
    Gen.K.archived_ord_cmp prof x y =
      (match partialCmp x y with | some v => .ok v | none => .panic .unwrap) := by
  unfold Gen.K.archived_ord_cmp
  rw [archived_cmp_archived_eq prof x y hp hq]
  simp only [bind_ok']
  cases partialCmp x y <;> rfl

theorem archived_eq_zero_eq (prof : Profile) (d : Dec) : Gen.K.archived_eq_zero prof d = .ok (eqZero d) := rfl
theorem archived_is_negative_eq (prof : Profile) (d : Dec) : Gen.K.archived_is_negative prof d = .ok (isNegative d) := rfl
theorem archived_is_positive_eq (prof : Profile) (d : Dec) : Gen.K.archived_is_positive prof d = .ok (isPositive d) := rfl
theorem archived_eq_one_eq (prof : Profile) (d : Dec) : Gen.K.archived_eq_one prof d = Gen.K.decimal_eq_one prof d := rfl

theorem decimal_coefficient_eq (prof : Profile) (d : Dec) : Gen.K.decimal_coefficient prof d = .ok d.coeff := rfl
theorem decimal_n_frac_digits_eq (prof : Profile) (d : Dec) : Gen.K.decimal_n_frac_digits prof d = .ok d.nfrac := rfl
theorem archived_coefficient_eq (prof : Profile) (d : Dec) : Gen.K.archived_coefficient prof d = .ok d.coeff := rfl
theorem archived_n_frac_digits_eq (prof : Profile) (d : Dec) : Gen.K.archived_n_frac_digits prof d = .ok d.nfrac := rfl

/-- what `resolve` writes is the Decimal itself, field by field -/
theorem decimal_resolve_eq (prof : Profile) (d : Dec) : Gen.K.decimal_resolve prof d = .ok d := rfl
theorem decimal_serialize_eq (prof : Profile) (d : Dec) : Gen.K.decimal_serialize prof d = .ok (.ok ()) := rfl
theorem archived_deserialize_eq (prof : Profile) (d : Dec) : Gen.K.archived_deserialize prof d = .ok (.ok d) := rfl

/-- `impl Hash for Decimal` feeds exactly the pair returned by `as_integer_ratio` -/
theorem decimal_hash_eq (prof : Profile) (d : Dec) (hc : I128_MIN < d.coeff ∧ d.coeff ≤ I128_MAX) :
    Gen.K.decimal_hash prof d = hashFeed prof d := by
  unfold Gen.K.decimal_hash hashFeed
  rw [decimal_as_integer_ratio_eq prof d hc]
  cases asIntegerRatio prof d <;> rfl

end Fpdec.Kernels
