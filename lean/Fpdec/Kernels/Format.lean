import Fpdec.Gen.KFormat
import Fpdec.Kernels.DivRounded
import Fpdec.Lemmas.Text

/-! Tie: the generated translations of `impl From<Decimal> for String`, `impl Debug for Decimal` (macro `impl_debug` instantiated
with `Decimal, "Dec!"`) and `impl Display for Decimal` (src/format.rs) equal the hand-written model on the domain of the
properties.  `format!` / `write!` are translated placeholder by placeholder: `{}` of an integer is `Model.fmtInt`, `{:0width$}` is
the sign-aware `Model.fmtZeroPadInt`, `Formatter::precision` / `pad_integral` are the modelled std functions of `Fpdec/Std.lean`. -/

namespace Fpdec.Kernels
open Fpdec Fpdec.Model

theorem fmtZeroPadInt_nonneg (x : Int) (w : Nat) (h : 0 ≤ x) : fmtZeroPadInt x w = fmtZeroPad x.toNat w := by
  unfold fmtZeroPadInt
  rw [if_neg (by omega)]

theorem string_from_decimal_eq (prof : Profile) (d : Dec) (hd : Dom d) :
    Gen.K.string_from_decimal prof d = toStringDec prof d := by
  obtain ⟨h1, h2, h3⟩ := hd
  unfold Gen.K.string_from_decimal toStringDec
  by_cases h0 : d.nfrac = 0
  · simp only [h0, decide_true, if_true, pure_eq']
  · simp only [h0, decide_false, Bool.false_eq_true, if_false]
    have hfit : fitsI128 (if d.coeff < 0 then -d.coeff else d.coeff) = true := abs_fits ⟨h1, h2⟩
    rw [plainI128_ok prof hfit, ten_pow_eq, tenPow_ok _ (by omega)]
    simp only [bind_ok', i128_div_mod_floor_eq]
    rw [i128DivModFloor_pos prof _ _ hfit (pow10_pos _) (pow10_le_max (by omega))]
    simp only [bind_ok', pure_eq']
    rw [fmtZeroPadInt_nonneg _ _ (Int.emod_nonneg _ (Int.ne_of_gt (pow10_pos _)))]
    simp only [decide_eq_true_eq]

theorem decimal_debug_fmt_eq (prof : Profile) (d : Dec) (f : Std.FmtSpec) (hd : Dom d) :
    Gen.K.decimal_debug_fmt prof d f = debugDec prof d := by
  obtain ⟨h1, h2, h3⟩ := hd
  unfold Gen.K.decimal_debug_fmt debugDec toStringDec
  by_cases h0 : d.nfrac = 0
  · simp only [h0, decide_true, if_true, pure_eq', bind_ok']
  · simp only [h0, decide_false, Bool.false_eq_true, if_false]
    have hfit : fitsI128 (if d.coeff < 0 then -d.coeff else d.coeff) = true := abs_fits ⟨h1, h2⟩
    rw [plainI128_ok prof hfit, ten_pow_eq, tenPow_ok _ (by omega)]
    simp only [bind_ok', i128_div_mod_floor_eq]
    rw [i128DivModFloor_pos prof _ _ hfit (pow10_pos _) (pow10_le_max (by omega))]
    simp only [bind_ok', pure_eq']
    rw [fmtZeroPadInt_nonneg _ _ (Int.emod_nonneg _ (Int.ne_of_gt (pow10_pos _)))]
    simp only [List.append_assoc, decide_eq_true_eq]

theorem floor_parts (prof : Profile) (a : Int) (n : Nat) (ha : fitsI128 a = true) (hn : n ≤ 38) :
    i128DivModFloor prof a ((10 : Int) ^ n) = .ok (a / (10 : Int) ^ n, a % (10 : Int) ^ n) ∧ 0 ≤ a % (10 : Int) ^ n ∧
      a % (10 : Int) ^ n < (10 : Int) ^ n :=
  ⟨i128DivModFloor_pos prof _ _ ha (pow10_pos _) (pow10_le_max hn), Int.emod_nonneg _ (Int.ne_of_gt (pow10_pos _)),
    Int.emod_lt_of_pos _ (pow10_pos _)⟩

theorem decimal_display_fmt_eq (prof : Profile) (tm : Mode) (d : Dec) (f : Std.FmtSpec) (hd : Dom d) :
    Gen.K.decimal_display_fmt prof tm d f = display prof tm f d := by
  obtain ⟨h1, h2, h3⟩ := hd
  unfold Gen.K.decimal_display_fmt display
  have hfit : fitsI128 (if d.coeff < 0 then -d.coeff else d.coeff) = true := abs_fits ⟨h1, h2⟩
  have hcfit : fitsI128 d.coeff = true := by rw [fitsI128_iff]; exact ⟨Int.le_of_lt h1, h2⟩
  cases hfp : f.prec with
  | none =>
    simp only [plainI128_ok prof hfit, bind_ok']
    generalize (if d.coeff < 0 then -d.coeff else d.coeff) = A at hfit ⊢
    by_cases h0 : d.nfrac = 0
    · simp only [h0, decide_true, if_true]
      by_cases hP : d.nfrac > 0
      · simp only [hP, decide_true, if_true, pure_eq', bind_ok']; rfl
      · simp [hP, pure_eq', bind_ok']
    · simp only [h0, decide_false, Bool.false_eq_true, if_false]
      rcases Nat.lt_trichotomy d.nfrac d.nfrac with hlt | heq | hgt
      · have hc : compare d.nfrac d.nfrac = .lt := Nat.compare_eq_lt.2 hlt
        simp only [hc]
        rw [plainU8_sub prof d.nfrac d.nfrac (by omega) hlt]
        simp only [bind_ok', ten_pow_eq, tenPow_ok _ (show d.nfrac - d.nfrac ≤ 38 by omega),
          i128_div_rounded_eq prof tm _ _ none hcfit]
        simp only [bind_assoc']
        refine bind_congr _ (fun c => ?_)
        refine bind_congr_ok _ (fun ca hca => ?_)
        have hcafit := plainI128_fits prof _ _ hca
        obtain ⟨e1, e2, _⟩ := floor_parts prof ca d.nfrac hcafit (by omega)
        simp only [tenPow_ok d.nfrac (by omega), bind_ok', i128_div_mod_floor_eq, e1]
        rw [fmtZeroPadInt_nonneg _ _ e2]
        by_cases hP : d.nfrac > 0 <;> simp [hP, pure_eq', bind_ok']
      · have hc : compare d.nfrac d.nfrac = .eq := Nat.compare_eq_eq.2 heq
        obtain ⟨e1, e2, _⟩ := floor_parts prof A d.nfrac hfit (by omega)
        simp only [hc, ten_pow_eq, tenPow_ok d.nfrac (by omega), bind_ok', i128_div_mod_floor_eq, e1]
        rw [fmtZeroPadInt_nonneg _ _ e2]
        by_cases hP : d.nfrac > 0 <;> simp [hP, pure_eq', bind_ok']
      · have hc : compare d.nfrac d.nfrac = .gt := Nat.compare_eq_gt.2 hgt
        obtain ⟨e1, e2, e3⟩ := floor_parts prof A d.nfrac hfit (by omega)
        simp only [hc, ten_pow_eq, tenPow_ok d.nfrac (by omega), bind_ok', i128_div_mod_floor_eq, e1]
        rw [plainU8_sub prof d.nfrac d.nfrac (by omega) hgt]
        simp only [bind_ok', tenPow_ok _ (show d.nfrac - d.nfrac ≤ 38 by omega)]
        have hnn : 0 ≤ A % (10 : Int) ^ d.nfrac * (10 : Int) ^ (d.nfrac - d.nfrac) := Int.mul_nonneg e2 (Int.le_of_lt (pow10_pos _))
        have hlt : A % (10 : Int) ^ d.nfrac * (10 : Int) ^ (d.nfrac - d.nfrac) < (10 : Int) ^ d.nfrac := by
          have hm := Int.mul_lt_mul_of_pos_right e3 (pow10_pos (d.nfrac - d.nfrac))
          rwa [← Int.pow_add, show d.nfrac + (d.nfrac - d.nfrac) = d.nfrac by omega] at hm
        have hmax := pow10_le_max (show d.nfrac ≤ 38 by omega)
        have hff : fitsI128 (A % (10 : Int) ^ d.nfrac * (10 : Int) ^ (d.nfrac - d.nfrac)) = true := by
          rw [fitsI128_iff]; unfold I128_MIN; unfold I128_MAX at hmax ⊢; omega
        rw [plainI128_ok prof hff]
        simp only [bind_ok', pure_eq']
        rw [fmtZeroPadInt_nonneg _ _ hnn]
        by_cases hP : d.nfrac > 0 <;> simp [hP, pure_eq', bind_ok']
  | some p =>
    have hw : Rt.wrapU 8 (min p Gen.MAX_N_FRAC_DIGITS) = Nat.min p Gen.MAX_N_FRAC_DIGITS :=
      wrapU_id 8 _ (Nat.lt_of_le_of_lt (Nat.min_le_right _ _) (by decide))
    have hp18 : Nat.min p Gen.MAX_N_FRAC_DIGITS ≤ 18 := Nat.min_le_right _ _
    simp only [hw, plainI128_ok prof hfit, bind_ok']
    generalize Nat.min p Gen.MAX_N_FRAC_DIGITS = P at hp18 ⊢
    generalize (if d.coeff < 0 then -d.coeff else d.coeff) = A at hfit ⊢
    by_cases h0 : d.nfrac = 0
    · simp only [h0, decide_true, if_true]
      by_cases hP : P > 0
      · simp only [hP, decide_true, if_true, pure_eq', bind_ok']; rfl
      · simp [hP, pure_eq', bind_ok']
    · simp only [h0, decide_false, Bool.false_eq_true, if_false]
      rcases Nat.lt_trichotomy P d.nfrac with hlt | heq | hgt
      · have hc : compare P d.nfrac = .lt := Nat.compare_eq_lt.2 hlt
        simp only [hc]
        rw [plainU8_sub prof d.nfrac P (by omega) hlt]
        simp only [bind_ok', ten_pow_eq, tenPow_ok _ (show d.nfrac - P ≤ 38 by omega),
          i128_div_rounded_eq prof tm _ _ none hcfit]
        simp only [bind_assoc']
        refine bind_congr _ (fun c => ?_)
        refine bind_congr_ok _ (fun ca hca => ?_)
        have hcafit := plainI128_fits prof _ _ hca
        obtain ⟨e1, e2, _⟩ := floor_parts prof ca P hcafit (by omega)
        simp only [tenPow_ok P (by omega), bind_ok', i128_div_mod_floor_eq, e1]
        rw [fmtZeroPadInt_nonneg _ _ e2]
        by_cases hP : P > 0 <;> simp [hP, pure_eq', bind_ok']
      · have hc : compare P d.nfrac = .eq := Nat.compare_eq_eq.2 heq
        obtain ⟨e1, e2, _⟩ := floor_parts prof A d.nfrac hfit (by omega)
        simp only [hc, ten_pow_eq, tenPow_ok d.nfrac (by omega), bind_ok', i128_div_mod_floor_eq, e1]
        rw [fmtZeroPadInt_nonneg _ _ e2]
        by_cases hP : P > 0 <;> simp [hP, pure_eq', bind_ok']
      · have hc : compare P d.nfrac = .gt := Nat.compare_eq_gt.2 hgt
        obtain ⟨e1, e2, e3⟩ := floor_parts prof A d.nfrac hfit (by omega)
        simp only [hc, ten_pow_eq, tenPow_ok d.nfrac (by omega), bind_ok', i128_div_mod_floor_eq, e1]
        rw [plainU8_sub prof P d.nfrac (by omega) hgt]
        simp only [bind_ok', tenPow_ok _ (show P - d.nfrac ≤ 38 by omega)]
        have hnn : 0 ≤ A % (10 : Int) ^ d.nfrac * (10 : Int) ^ (P - d.nfrac) := Int.mul_nonneg e2 (Int.le_of_lt (pow10_pos _))
        have hlt : A % (10 : Int) ^ d.nfrac * (10 : Int) ^ (P - d.nfrac) < (10 : Int) ^ P := by
          have hm := Int.mul_lt_mul_of_pos_right e3 (pow10_pos (P - d.nfrac))
          rwa [← Int.pow_add, show d.nfrac + (P - d.nfrac) = P by omega] at hm
        have hmax := pow10_le_max (show P ≤ 38 by omega)
        have hff : fitsI128 (A % (10 : Int) ^ d.nfrac * (10 : Int) ^ (P - d.nfrac)) = true := by
          rw [fitsI128_iff]; unfold I128_MIN; unfold I128_MAX at hmax ⊢; omega
        rw [plainI128_ok prof hff]
        simp only [bind_ok', pure_eq']
        rw [fmtZeroPadInt_nonneg _ _ hnn]
        by_cases hP : P > 0 <;> simp [hP, pure_eq', bind_ok']

end Fpdec.Kernels
