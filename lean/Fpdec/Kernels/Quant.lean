import Fpdec.Gen.KQuant
import Fpdec.Kernels.DecOps
import Fpdec.Kernels.IntOps

/-! Tie: the generic `Quantize::quantize` (src/quantize.rs: `self.div_rounded(quant, 0) * quant`), instantiated for the four operand
shapes (the method call and the `*` are dispatched on the operand types to the translated impls). -/

namespace Fpdec.Kernels
open Fpdec Fpdec.Model

theorem quantize_dec_dec_eq (prof : Profile) (tm : Mode) (x q : Dec) (hx : fitsI128 x.coeff = true) (hp : x.nfrac ≤ 38) :
    Gen.K.quantize_dec_dec prof tm x q = quantize prof tm x q := by
  unfold Gen.K.quantize_dec_dec quantize
  rw [decimal_div_rounded_eq prof tm x q 0 hx hp]
  refine bind_congr _ (fun r => ?_)
  rw [decimal_mul_eq prof tm r q]

theorem quantize_dec_int_eq (prof : Profile) (tm : Mode) (x : Dec) (i : Int) (hx : fitsI128 x.coeff = true) (hp : x.nfrac ≤ 38) :
    Gen.K.quantize_dec_int prof tm x i = quantizeDecInt prof tm x i := by
  unfold Gen.K.quantize_dec_int quantizeDecInt
  rw [decimal_div_rounded_int_eq prof tm x i 0 hx hp]
  refine bind_congr _ (fun r => ?_)
  rw [decimal_mul_int_eq prof r i]

theorem quantize_int_dec_eq (prof : Profile) (tm : Mode) (i : Int) (q : Dec) (hi : fitsI128 i = true) :
    Gen.K.quantize_int_dec prof tm i q = quantizeIntDec prof tm i q := by
  unfold Gen.K.quantize_int_dec quantizeIntDec
  rw [int_div_rounded_decimal_eq prof tm i q 0 hi]
  refine bind_congr _ (fun r => ?_)
  rw [decimal_mul_eq prof tm r q]

theorem quantize_int_int_eq (prof : Profile) (tm : Mode) (i j : Int) (hi : fitsI128 i = true) :
    Gen.K.quantize_int_int prof tm i j = quantizeIntInt prof tm i j := by
  unfold Gen.K.quantize_int_int quantizeIntInt
  rw [int_div_rounded_int_eq prof tm i j 0 hi]
  refine bind_congr _ (fun r => ?_)
  rw [decimal_mul_int_eq prof r j]

end Fpdec.Kernels
