import Fpdec.Gen.KDecDiv
import Fpdec.Kernels.WideFits
import Fpdec.Model.Decimal

/-! Tie: the generated translation of `checked_div_rounded` (src/binops/div_rounded.rs) equals the hand-written model. -/

namespace Fpdec.Kernels
open Fpdec Fpdec.Model

theorem plainU8_lt (prof : Profile) (x : Int) (v : Nat) (h : plainU8 prof x = .ok v) : v < 256 := by
  unfold plainU8 at h
  by_cases hc : 0 ≤ x ∧ x < 256
  · simp only [hc, and_self, if_true] at h
    have := Outcome.ok.inj h; omega
  · simp only [hc, if_false] at h
    by_cases ho : prof.oc = true
    · simp [ho] at h
    · simp only [ho, Bool.false_eq_true, if_false] at h
      have := Outcome.ok.inj h; omega

theorem checkedI128_fits (x v : Int) (h : checkedI128 x = some v) : fitsI128 v = true := by
  unfold checkedI128 at h
  by_cases hf : fitsI128 x = true
  · simp only [hf, if_true] at h; rw [← Option.some.inj h]; exact hf
  · simp [hf] at h

theorem checkedMulPowTen_fits (a : Int) (n : Nat) (v : Int) (h : checkedMulPowTen a n = some v) : fitsI128 v = true := by
  unfold checkedMulPowTen at h
  cases ht : checkedTenPow n with
  | none => rw [ht] at h; cases h
  | some t => rw [ht] at h; exact checkedI128_fits _ _ h

theorem checked_div_rounded_eq (prof : Profile) (tm : Mode) (a : Int) (p : Nat) (b : Int) (q n : Nat)
    (ha : fitsI128 a = true) (hp38 : p ≤ 38) :
    Gen.K.checked_div_rounded prof tm a p b q n = checkedDivRounded prof tm a p b q n := by
  have hp : p < 256 := by omega
  unfold Gen.K.checked_div_rounded checkedDivRounded
  rw [show ((n : Int) + (q : Int)) = ((n + q : Nat) : Int) from (Int.natCast_add n q).symm]
  cases hs : plainU8 prof ((n + q : Nat) : Int) with
  | panic k => rfl
  | ok shift =>
    have hsl := plainU8_lt prof _ _ hs
    simp only [bind_ok']
    rcases Nat.lt_trichotomy p shift with h | h | h
    · have hc : compare p shift = .lt := Nat.compare_eq_lt.mpr h
      simp only [hc, plainU8_sub prof shift p hsl h, bind_ok', checked_mul_pow_ten_eq]
      cases hm : checkedMulPowTen a (shift - p) with
      | some sh =>
        simp only [i128_div_rounded_eq prof tm sh b none (checkedMulPowTen_fits _ _ _ hm)]
      | none =>
        simp only [i128_shifted_div_rounded_eq']
    · have hc : compare p shift = .eq := Nat.compare_eq_eq.mpr h
      simp only [hc, i128_div_rounded_eq prof tm a b none ha]
    · have hc : compare p shift = .gt := Nat.compare_eq_gt.mpr h
      simp only [hc, plainU8_sub prof p shift hp h, bind_ok']
      -- the floor division of the first step (operands negated for a negative divisor)
      have tail : ∀ (o : Outcome (Int × Int)) (hfit : ∀ qu re, o = .ok (qu, re) → fitsI128 qu = true),
          (do let t12 ← o
              let (quot, rem) := t12
              if decide (rem = 0) = true then do
                let t13 ← Gen.K.ten_pow prof (p - shift)
                let t14 ← Gen.K.i128_div_rounded prof tm quot t13 none
                pure (some t14)
              else do
                let t15 ← plainI128 prof (2 * quot)
                let t16 ← plainI128 prof (t15 + 1)
                let t17 ← Gen.K.ten_pow prof (p - shift)
                let t18 ← plainI128 prof (2 * t17)
                let t19 ← Gen.K.i128_div_rounded prof tm t16 t18 none
                pure (some t19)) =
          (do let (quot, rem) ← o
              let t ← tenPow (p - shift)
              if rem = 0 then do
                let c ← i128DivRounded prof tm quot t none
                pure (some c)
              else do
                let q2 ← plainI128 prof (2 * quot)
                let q2 ← plainI128 prof (q2 + 1)
                let t2 ← plainI128 prof (2 * t)
                let c ← i128DivRounded prof tm q2 t2 none
                pure (some c) : Outcome (Option Int)) := by
        intro o hfit
        cases o with
        | panic k => rfl
        | ok qr =>
          obtain ⟨qu, re⟩ := qr
          have hq := hfit qu re rfl
          simp only [bind_ok', ten_pow_eq, tenPow_ok (p - shift) (by omega)]
          by_cases hr : re = 0
          · simp only [hr, decide_true, if_true, i128_div_rounded_eq prof tm qu _ none hq]
          · simp only [hr, decide_false, Bool.false_eq_true, if_false]
            cases h15 : plainI128 prof (2 * qu) with
            | panic k' => rfl
            | ok t15 =>
              simp only [bind_ok']
              cases h16 : plainI128 prof (t15 + 1) with
              | panic k' => rfl
              | ok t16 =>
                simp only [bind_ok', i128_div_rounded_eq prof tm t16 _ none (plainI128_fits prof _ _ h16)]
      simp only [i128_div_mod_floor_eq]
      have := tail (i128DivModFloor prof a b) (fun qu re h => divModFloor_fits prof a b qu re ha h)
      simpa only [bind_ok', pure_eq'] using this

end Fpdec.Kernels
