import Fpdec.Gen.KIntOps
import Fpdec.Kernels.DecOps

/-! Tie: the macro-generated integer forms of `*`, `checked_mul`, `/`, `checked_div` (both operand orders; macro bodies
instantiated at `$t = i64`, the body does not depend on the type) equal the hand-written model. -/

namespace Fpdec.Kernels
open Fpdec Fpdec.Model

theorem decimal_mul_int_eq (prof : Profile) (d : Dec) (i : Int) : Gen.K.decimal_mul_int prof d i = mulInt d i := by
  unfold Gen.K.decimal_mul_int mulInt
  cases checkedI128 (d.coeff * i) <;> rfl

theorem int_mul_decimal_eq (prof : Profile) (i : Int) (d : Dec) : Gen.K.int_mul_decimal prof i d = mulInt d i := by
  unfold Gen.K.int_mul_decimal mulInt
  rw [Int.mul_comm i d.coeff]
  cases checkedI128 (d.coeff * i) <;> rfl

theorem decimal_checked_mul_int_eq (prof : Profile) (d : Dec) (i : Int) :
    Gen.K.decimal_checked_mul_int prof d i = .ok (checkedMulInt d i) := by
  unfold Gen.K.decimal_checked_mul_int checkedMulInt
  cases checkedI128 (d.coeff * i) <;> rfl

theorem int_checked_mul_decimal_eq (prof : Profile) (i : Int) (d : Dec) :
    Gen.K.int_checked_mul_decimal prof i d = .ok (checkedMulInt d i) := by
  unfold Gen.K.int_checked_mul_decimal checkedMulInt
  rw [Int.mul_comm i d.coeff]
  cases checkedI128 (d.coeff * i) <;> rfl

/-- the shared tail of the division forms -/
theorem div_core_eq' (prof : Profile) (tm : Mode) (a : Int) (p : Nat) (b : Int) (q : Nat) (ha : fitsI128 a = true) (hp : p ≤ 38) :
    (do let t2 ← Gen.K.checked_div_rounded prof tm a p b q Gen.MAX_N_FRAC_DIGITS
        match t2 with
        | some coeff => do
          let (coeff, n_frac_digits) ← Gen.K.normalize prof coeff Gen.MAX_N_FRAC_DIGITS
          pure (some (⟨coeff, n_frac_digits⟩ : Dec))
        | none => pure none : Outcome (Option Dec)) = divCore prof tm a p b q := by
  have := div_core_eq prof tm ⟨a, p⟩ ⟨b, q⟩ ha hp
  exact this

theorem decimal_div_int_eq (prof : Profile) (tm : Mode) (d : Dec) (i : Int) (hd : fitsI128 d.coeff = true) (hp : d.nfrac ≤ 38) :
    Gen.K.decimal_div_int prof tm d i = opOfChecked (i = 0) (divDecInt prof tm d i) := by
  unfold Gen.K.decimal_div_int opOfChecked divDecInt
  by_cases hz : i = 0
  · simp only [hz, decide_true, if_true]
  · simp only [hz, decide_false, Bool.false_eq_true, if_false]
    by_cases h0 : eqZero d = true
    · simp only [h0, if_true, pure_eq']
    · simp only [h0, Bool.false_eq_true, if_false]
      by_cases h1 : i = 1
      · simp only [h1, decide_true, if_true, pure_eq']
      · simp only [h1, decide_false, Bool.false_eq_true, if_false]
        rw [← div_core_eq' prof tm d.coeff d.nfrac i 0 hd hp]
        cases Gen.K.checked_div_rounded prof tm d.coeff d.nfrac i 0 Gen.MAX_N_FRAC_DIGITS with
        | panic k => rfl
        | ok o =>
          cases o with
          | none => rfl
          | some c =>
            simp only [bind_ok']
            cases Gen.K.normalize prof c Gen.MAX_N_FRAC_DIGITS with
            | panic k => rfl
            | ok cn => rfl

theorem decimal_checked_div_int_eq (prof : Profile) (tm : Mode) (d : Dec) (i : Int) (hd : fitsI128 d.coeff = true)
    (hp : d.nfrac ≤ 38) :
    Gen.K.decimal_checked_div_int prof tm d i = checkedOfChecked (i = 0) (divDecInt prof tm d i) := by
  unfold Gen.K.decimal_checked_div_int checkedOfChecked divDecInt
  by_cases hz : i = 0
  · simp only [hz, decide_true, if_true, pure_eq']
  · simp only [hz, decide_false, Bool.false_eq_true, if_false]
    by_cases h0 : eqZero d = true
    · simp only [h0, if_true, pure_eq']
    · simp only [h0, Bool.false_eq_true, if_false]
      by_cases h1 : i = 1
      · simp only [h1, decide_true, if_true, pure_eq']
      · simp only [h1, decide_false, Bool.false_eq_true, if_false]
        rw [← div_core_eq' prof tm d.coeff d.nfrac i 0 hd hp]
        refine bind_congr _ (fun o => ?_)
        cases o <;> rfl

theorem i64_fits_i128 (i : Int) (h : IntTy.i64.fits i = true) : fitsI128 i = true := by
  unfold IntTy.fits IntTy.min IntTy.max IntTy.i64 at h
  simp only [if_true] at h
  have e : (2 : Int) ^ (64 - 1) = 9223372036854775808 := by decide
  rw [e] at h
  rw [fitsI128_iff]; unfold I128_MIN I128_MAX
  simp at h
  omega

theorem int_div_decimal_eq (prof : Profile) (tm : Mode) (i : Int) (d : Dec) (hi : fitsI128 i = true) :
    Gen.K.int_div_decimal prof tm i d = opOfChecked (eqZero d) (divIntDec prof tm i d) := by
  unfold Gen.K.int_div_decimal opOfChecked divIntDec
  by_cases hz : eqZero d = true
  · simp only [hz, if_true]
  · simp only [hz, Bool.false_eq_true, if_false]
    by_cases h0 : i = 0
    · simp only [h0, decide_true, if_true, pure_eq']
    · simp only [h0, decide_false, Bool.false_eq_true, if_false]
      cases h1 : eqOne d with
      | panic k => simp only [bind_panic']
      | ok b1 =>
        cases b1 with
        | true => simp only [bind_ok', if_true, pure_eq']
        | false =>
          simp only [bind_ok', Bool.false_eq_true, if_false]
          rw [← div_core_eq' prof tm i 0 d.coeff d.nfrac hi (by decide)]
          cases Gen.K.checked_div_rounded prof tm i 0 d.coeff d.nfrac Gen.MAX_N_FRAC_DIGITS with
          | panic k => rfl
          | ok o =>
            cases o with
            | none => rfl
            | some c =>
              simp only [bind_ok']
              cases Gen.K.normalize prof c Gen.MAX_N_FRAC_DIGITS with
              | panic k => rfl
              | ok cn => rfl

theorem int_checked_div_decimal_eq (prof : Profile) (tm : Mode) (i : Int) (d : Dec) (hi : fitsI128 i = true) :
    Gen.K.int_checked_div_decimal prof tm i d = checkedOfChecked (eqZero d) (divIntDec prof tm i d) := by
  unfold Gen.K.int_checked_div_decimal checkedOfChecked divIntDec
  by_cases hz : eqZero d = true
  · simp only [hz, if_true, pure_eq']
  · simp only [hz, Bool.false_eq_true, if_false]
    by_cases h0 : i = 0
    · simp only [h0, decide_true, if_true, pure_eq']
    · simp only [h0, decide_false, Bool.false_eq_true, if_false]
      cases h1 : eqOne d with
      | panic k => simp only [bind_panic']
      | ok b1 =>
        cases b1 with
        | true => simp only [bind_ok', if_true, pure_eq']
        | false =>
          simp only [bind_ok', Bool.false_eq_true, if_false]
          rw [← div_core_eq' prof tm i 0 d.coeff d.nfrac hi (by decide)]
          refine bind_congr _ (fun o => ?_)
          cases o <;> rfl

theorem decimal_div_rounded_int_eq (prof : Profile) (tm : Mode) (d : Dec) (i : Int) (n : Nat) (hd : fitsI128 d.coeff = true)
    (hp : d.nfrac ≤ 38) :
    Gen.K.decimal_div_rounded_int prof tm d i n = divRoundedDecInt prof tm d i n := by
  unfold Gen.K.decimal_div_rounded_int divRoundedDecInt
  by_cases h : n > Gen.MAX_N_FRAC_DIGITS
  · simp only [h, decide_true, if_true]
  · simp only [h, decide_false, Bool.false_eq_true, if_false]
    by_cases hz : i = 0
    · simp only [hz, decide_true, if_true]
    · simp only [hz, decide_false, Bool.false_eq_true, if_false]
      by_cases h0 : eqZero d = true
      · simp only [h0, if_true, pure_eq']
      · simp only [h0, Bool.false_eq_true, if_false, checked_div_rounded_eq prof tm d.coeff d.nfrac i 0 n hd hp]
        cases checkedDivRounded prof tm d.coeff d.nfrac i 0 n with
        | panic k => simp only [bind_panic']
        | ok o => cases o <;> simp only [bind_ok', pure_eq']

theorem int_div_rounded_decimal_eq (prof : Profile) (tm : Mode) (i : Int) (d : Dec) (n : Nat) (hi : fitsI128 i = true) :
    Gen.K.int_div_rounded_decimal prof tm i d n = divRoundedIntDec prof tm i d n := by
  unfold Gen.K.int_div_rounded_decimal divRoundedIntDec
  by_cases h : n > Gen.MAX_N_FRAC_DIGITS
  · simp only [h, decide_true, if_true]
  · simp only [h, decide_false, Bool.false_eq_true, if_false]
    by_cases hz : eqZero d = true
    · simp only [hz, if_true]
    · simp only [hz, Bool.false_eq_true, if_false]
      by_cases h0 : i = 0
      · simp only [h0, decide_true, if_true, pure_eq']
      · simp only [h0, decide_false, Bool.false_eq_true, if_false, checked_div_rounded_eq prof tm i 0 d.coeff d.nfrac n hi (by decide)]
        cases checkedDivRounded prof tm i 0 d.coeff d.nfrac n with
        | panic k => simp only [bind_panic']
        | ok o => cases o <;> simp only [bind_ok', pure_eq']

/-- `int.div_rounded(int, n)` — the translated body has no `n_frac_digits` guard either (open finding D8) -/
theorem int_div_rounded_int_eq (prof : Profile) (tm : Mode) (i j : Int) (n : Nat) (hi : fitsI128 i = true) :
    Gen.K.int_div_rounded_int prof tm i j n = divRoundedIntInt prof tm i j n := by
  unfold Gen.K.int_div_rounded_int divRoundedIntInt
  by_cases hz : j = 0
  · simp only [hz, decide_true, if_true]
  · simp only [hz, decide_false, Bool.false_eq_true, if_false]
    by_cases h0 : i = 0
    · simp only [h0, decide_true, if_true, pure_eq']
    · simp only [h0, decide_false, Bool.false_eq_true, if_false, checked_div_rounded_eq prof tm i 0 j 0 n hi (by decide)]
      cases checkedDivRounded prof tm i 0 j 0 n with
      | panic k => simp only [bind_panic']
      | ok o => cases o <;> simp only [bind_ok', pure_eq']

end Fpdec.Kernels
