import Fpdec.Gen.KDecRem
import Fpdec.Kernels.Rem

/-! Tie: the generated translations of `impl Rem<Decimal> for Decimal` and `impl CheckedRem<Decimal> for Decimal` equal the model
(`remDecDec` behind the operator / checked wrappers). -/

namespace Fpdec.Kernels
open Fpdec Fpdec.Model

theorem decimal_checked_rem_eq (prof : Profile) (x y : Dec) (hp : x.nfrac < 256) (hq : y.nfrac < 256) :
    Gen.K.decimal_checked_rem prof x y = checkedOfChecked (eqZero y) (remDecDec x y) := by
  unfold Gen.K.decimal_checked_rem checkedOfChecked remDecDec
  by_cases hz : eqZero y = true
  · simp only [hz, if_true, pure_eq']
  · simp only [hz, Bool.false_eq_true, if_false]
    by_cases h0 : eqZero x = true
    · simp only [h0, if_true, pure_eq']
    · simp only [h0, Bool.false_eq_true, if_false]
      cases h1 : eqOne y with
      | panic k => simp only [bind_panic']
      | ok b1 =>
        cases b1 with
        | true =>
          simp only [bind_ok', if_true]
        | false =>
          simp only [bind_ok', Bool.false_eq_true, if_false, rem_eq prof x.coeff x.nfrac y.coeff y.nfrac hp hq]
          cases remCore x.coeff x.nfrac y.coeff y.nfrac with
          | panic k => rfl
          | ok o => cases o <;> rfl

theorem decimal_rem_eq (prof : Profile) (x y : Dec) (hp : x.nfrac < 256) (hq : y.nfrac < 256) :
    Gen.K.decimal_rem prof x y = opOfChecked (eqZero y) (remDecDec x y) := by
  unfold Gen.K.decimal_rem opOfChecked remDecDec
  by_cases hz : eqZero y = true
  · simp only [hz, if_true]
  · simp only [hz, Bool.false_eq_true, if_false]
    by_cases h0 : eqZero x = true
    · simp only [h0, if_true, pure_eq']
    · simp only [h0, Bool.false_eq_true, if_false]
      cases h1 : eqOne y with
      | panic k => simp only [bind_panic']
      | ok b1 =>
        cases b1 with
        | true =>
          simp only [bind_ok', if_true]
          cases fract x with
          | panic k => simp only [bind_panic']
          | ok f => simp only [bind_ok', pure_eq']
        | false =>
          simp only [bind_ok', Bool.false_eq_true, if_false, rem_eq prof x.coeff x.nfrac y.coeff y.nfrac hp hq]
          cases remCore x.coeff x.nfrac y.coeff y.nfrac with
          | panic k => rfl
          | ok o => cases o <;> rfl

/-! Integer forms (macro bodies of rem.rs / checked_rem.rs instantiated with `i64`). -/

theorem rem_tail_op (prof : Profile) (a : Int) (p : Nat) (b : Int) (q : Nat) (hp : p < 256) (hq : q < 256) :
    (do let t ← Gen.K.rem prof a p b q
        match t with
        | .ok (coeff, n_frac_digits) => pure (⟨coeff, n_frac_digits⟩ : Dec)
        | .error _ => Outcome.panic .overflow) =
      (match remCore a p b q with | .panic k => .panic k | .ok (some d) => .ok d | .ok none => .panic .overflow) := by
  rw [rem_eq prof a p b q hp hq]
  cases remCore a p b q with
  | panic k => rfl
  | ok o => cases o <;> rfl

theorem rem_tail_checked (prof : Profile) (a : Int) (p : Nat) (b : Int) (q : Nat) (hp : p < 256) (hq : q < 256) :
    (do let t ← Gen.K.rem prof a p b q
        match t with
        | .ok (coeff, n_frac_digits) => pure (some (⟨coeff, n_frac_digits⟩ : Dec))
        | .error _ => pure none) = remCore a p b q := by
  rw [rem_eq prof a p b q hp hq]
  cases remCore a p b q with
  | panic k => rfl
  | ok o => cases o <;> rfl

theorem decimal_rem_int_eq (prof : Profile) (x : Dec) (i : Int) (hp : x.nfrac < 256) :
    Gen.K.decimal_rem_int prof x i = opOfChecked (decide (i = 0)) (remDecInt x i) := by
  unfold Gen.K.decimal_rem_int opOfChecked remDecInt
  by_cases hz : i = 0
  · simp only [hz, decide_true, if_true]
  · simp only [hz, decide_false, Bool.false_eq_true, if_false]
    by_cases h0 : eqZero x = true
    · simp only [h0, if_true, pure_eq']
    · simp only [h0, Bool.false_eq_true, if_false]
      by_cases h1 : i = 1
      · simp only [h1, decide_true, if_true]
        cases fract x with
        | panic k => simp only [bind_panic']
        | ok f => simp only [bind_ok', pure_eq']
      · simp only [h1, decide_false, Bool.false_eq_true, if_false]
        exact rem_tail_op prof x.coeff x.nfrac i 0 hp (by decide)

theorem decimal_checked_rem_int_eq (prof : Profile) (x : Dec) (i : Int) (hp : x.nfrac < 256) :
    Gen.K.decimal_checked_rem_int prof x i = checkedOfChecked (decide (i = 0)) (remDecInt x i) := by
  unfold Gen.K.decimal_checked_rem_int checkedOfChecked remDecInt
  by_cases hz : i = 0
  · simp only [hz, decide_true, if_true, pure_eq']
  · simp only [hz, decide_false, Bool.false_eq_true, if_false]
    by_cases h0 : eqZero x = true
    · simp only [h0, if_true, pure_eq']
    · simp only [h0, Bool.false_eq_true, if_false]
      by_cases h1 : i = 1
      · simp only [h1, decide_true, if_true]
      · simp only [h1, decide_false, Bool.false_eq_true, if_false]
        exact rem_tail_checked prof x.coeff x.nfrac i 0 hp (by decide)

theorem int_rem_decimal_eq (prof : Profile) (i : Int) (y : Dec) (hq : y.nfrac < 256) :
    Gen.K.int_rem_decimal prof i y = opOfChecked (eqZero y) (remIntDec i y) := by
  unfold Gen.K.int_rem_decimal opOfChecked remIntDec
  by_cases hz : eqZero y = true
  · simp only [hz, if_true]
  · simp only [hz, Bool.false_eq_true, if_false]
    by_cases h0 : i = 0
    · simp only [h0, decide_true, if_true, pure_eq', bind_ok']
    · simp only [h0, decide_false, Bool.false_eq_true, if_false]
      cases h1 : eqOne y with
      | panic k => simp only [bind_panic']
      | ok b1 =>
        cases b1 with
        | true => simp only [bind_ok', pure_eq', if_true]
        | false =>
          simp only [bind_ok', pure_eq', Bool.false_eq_true, if_false]
          exact rem_tail_op prof i 0 y.coeff y.nfrac (by decide) hq

theorem int_checked_rem_decimal_eq (prof : Profile) (i : Int) (y : Dec) (hq : y.nfrac < 256) :
    Gen.K.int_checked_rem_decimal prof i y = checkedOfChecked (eqZero y) (remIntDec i y) := by
  unfold Gen.K.int_checked_rem_decimal checkedOfChecked remIntDec
  by_cases hz : eqZero y = true
  · simp only [hz, if_true, pure_eq']
  · simp only [hz, Bool.false_eq_true, if_false]
    by_cases h0 : i = 0
    · simp only [h0, decide_true, if_true, pure_eq', bind_ok']
    · simp only [h0, decide_false, Bool.false_eq_true, if_false]
      cases h1 : eqOne y with
      | panic k => simp only [bind_panic']
      | ok b1 =>
        cases b1 with
        | true => simp only [bind_ok', pure_eq', if_true]
        | false =>
          simp only [bind_ok', pure_eq', Bool.false_eq_true, if_false]
          exact rem_tail_checked prof i 0 y.coeff y.nfrac (by decide) hq

end Fpdec.Kernels
