import Fpdec.Gen.KDecRem
import Fpdec.Kernels.Rem

/-! Tie: the generated translations of `impl Rem<Decimal> for Decimal` and `impl CheckedRem<Decimal> for Decimal` equal the model
(`remDecDec` behind the operator / checked wrappers). -/

namespace Fpdec.Kernels
open Fpdec Fpdec.Model

theorem decimal_checked_rem_eq (prof : Profile) (x y : Dec) (hp : x.nfrac < 256) (hq : y.nfrac < 256) :
    Gen.K.decimal_checked_rem prof x y = checkedOfChecked (eqZero y) (remDecDec x y) := by
  unfold Gen.K.decimal_checked_rem checkedOfChecked remDecDec
  by_cases hz : eqZero y = true
  · simp only [hz, if_true, pure_eq']
  · simp only [hz, Bool.false_eq_true, if_false]
    by_cases h0 : eqZero x = true
    · simp only [h0, if_true, pure_eq']
    · simp only [h0, Bool.false_eq_true, if_false]
      cases h1 : eqOne y with
      | panic k => simp only [bind_panic']
      | ok b1 =>
        cases b1 with
        | true =>
          simp only [bind_ok', if_true]
        | false =>
          simp only [bind_ok', Bool.false_eq_true, if_false, rem_eq prof x.coeff x.nfrac y.coeff y.nfrac hp hq]
          cases remCore x.coeff x.nfrac y.coeff y.nfrac with
          | panic k => rfl
          | ok o => cases o <;> rfl

theorem decimal_rem_eq (prof : Profile) (x y : Dec) (hp : x.nfrac < 256) (hq : y.nfrac < 256) :
    Gen.K.decimal_rem prof x y = opOfChecked (eqZero y) (remDecDec x y) := by
  unfold Gen.K.decimal_rem opOfChecked remDecDec
  by_cases hz : eqZero y = true
  · simp only [hz, if_true]
  · simp only [hz, Bool.false_eq_true, if_false]
    by_cases h0 : eqZero x = true
    · simp only [h0, if_true, pure_eq']
    · simp only [h0, Bool.false_eq_true, if_false]
      cases h1 : eqOne y with
      | panic k => simp only [bind_panic']
      | ok b1 =>
        cases b1 with
        | true =>
          simp only [bind_ok', if_true]
          cases fract x with
          | panic k => simp only [bind_panic']
          | ok f => simp only [bind_ok', pure_eq']
        | false =>
          simp only [bind_ok', Bool.false_eq_true, if_false, rem_eq prof x.coeff x.nfrac y.coeff y.nfrac hp hq]
          cases remCore x.coeff x.nfrac y.coeff y.nfrac with
          | panic k => rfl
          | ok o => cases o <;> rfl

end Fpdec.Kernels
