import Fpdec.Gen.KDivRounded
import Fpdec.Kernels.Round
import Fpdec.Kernels.Pow

/-!
Tie: the generated translations of `i128_div_rounded`, `i128_shifted_div_rounded` and `i128_mul_div_ten_pow_rounded` equal the
hand-written model (which calls the pure `roundQuot`; the generated code calls the translated `round_quot`, whose only extra
effect cannot fire for an i128 quotient — `Kernels.round_quot_eq`).
-/

namespace Fpdec.Kernels
open Fpdec Fpdec.Model

theorem wrapI128_fits (x : Int) : fitsI128 (wrapI128 x) = true := by
  rw [fitsI128_iff]; unfold wrapI128 I128_MIN I128_MAX; omega

theorem plainI128_fits (prof : Profile) (x v : Int) (h : plainI128 prof x = .ok v) : fitsI128 v = true := by
  unfold plainI128 at h
  by_cases hf : fitsI128 x = true
  · simp only [hf, if_true] at h; injection h with h; rw [← h]; exact hf
  · simp only [hf, Bool.false_eq_true, if_false] at h
    by_cases ho : prof.oc = true
    · simp [ho] at h
    · simp only [ho, Bool.false_eq_true, if_false] at h; injection h with h; rw [← h]; exact wrapI128_fits x

theorem tdiv_fits (x y : Int) (hx : fitsI128 x = true) (hy : y ≠ 0) (hm : ¬ (x = I128_MIN ∧ y = -1)) :
    fitsI128 (x.tdiv y) = true := by
  rw [fitsI128_iff] at *
  have hab : (x.tdiv y).natAbs = x.natAbs / y.natAbs := Int.natAbs_tdiv x y
  unfold I128_MIN I128_MAX at *
  by_cases h1 : y = 1
  · subst h1; rw [Int.tdiv_one]; exact hx
  · by_cases h2 : y = -1
    · subst h2
      have : x.tdiv (-1) = -x := by rw [Int.tdiv_neg, Int.tdiv_one]
      rw [this]; omega
    · have hy2 : 2 ≤ y.natAbs := by omega
      have : x.natAbs / y.natAbs ≤ x.natAbs / 2 := Nat.div_le_div_left hy2 (by decide)
      omega

theorem divModFloor_fits (prof : Profile) (x y q r : Int) (hx : fitsI128 x = true)
    (h : i128DivModFloor prof x y = .ok (q, r)) : fitsI128 q = true := by
  unfold i128DivModFloor divI128 remI128 at h
  by_cases hy : y = 0
  · simp [hy] at h
  · by_cases hm : x = I128_MIN ∧ y = -1
    · simp [hy, hm] at h
    · simp only [hy, hm, if_false, Outcome.bind_ok] at h
      have hq := tdiv_fits x y hx hy hm
      by_cases hc : (x.tmod y > 0 ∧ y < 0) ∨ (x.tmod y < 0 ∧ y > 0)
      · simp only [hc, if_true] at h
        cases h1 : plainI128 prof (x.tdiv y - 1) with
        | panic k => rw [h1] at h; cases h
        | ok v =>
          rw [h1] at h
          simp only [Outcome.bind_ok] at h
          cases h2 : plainI128 prof (x.tmod y + y) with
          | panic k => rw [h2] at h; cases h
          | ok w =>
            rw [h2] at h
            simp only [Outcome.bind_ok, Outcome.pure_eq] at h
            injection h with h; injection h with h3 h4
            rw [← h3]; exact plainI128_fits prof _ _ h1
      · simp only [hc, if_false, Outcome.pure_eq] at h
        injection h with h; injection h with h3 h4
        rw [← h3]; exact hq

/-- the common tail: translated `round_quot` after a floor division whose quotient fits -/
theorem round_tail (prof : Profile) (tm : Mode) (q : Int) (r d : Nat) (mode : Option Mode) (hq : fitsI128 q = true) :
    Gen.K.round_quot prof tm q r d mode = .ok (roundQuot tm q r d mode) := round_quot_eq prof tm q r d mode hq

theorem i128_div_rounded_eq (prof : Profile) (tm : Mode) (a b : Int) (mode : Option Mode) (ha : fitsI128 a = true) :
    Gen.K.i128_div_rounded prof tm a b mode = i128DivRounded prof tm a b mode := by
  unfold Gen.K.i128_div_rounded i128DivRounded
  rw [i128_div_mod_floor_eq]
  cases hdm : i128DivModFloor prof a b with
  | panic k => rfl
  | ok qr =>
    obtain ⟨q, r⟩ := qr
    have hq := divModFloor_fits prof a b q r ha hdm
    simp only [bind_ok', round_tail prof tm q _ _ mode hq]
    cases roundQuot tm q r.natAbs b.natAbs mode <;> rfl

theorem i128_shifted_div_rounded_eq (prof : Profile) (tm : Mode) (a : Int) (p : Nat) (b : Int) (mode : Option Mode)
    (hfit : ∀ a' b' q r, i128ShiftedDivModFloor prof a' p b' = .ok (some (q, r)) → fitsI128 q = true) :
    Gen.K.i128_shifted_div_rounded prof tm a p b mode = i128ShiftedDivRounded prof tm a p b mode := by
  unfold Gen.K.i128_shifted_div_rounded i128ShiftedDivRounded
  cases hdm : i128ShiftedDivModFloor prof a p b with
  | panic k => rfl
  | ok o =>
    cases o with
    | none => rfl
    | some qr =>
      obtain ⟨q, r⟩ := qr
      have hq := hfit a b q r hdm
      simp only [bind_ok', round_tail prof tm q _ _ mode hq, pure_eq']

theorem i128_mul_div_ten_pow_rounded_eq (prof : Profile) (tm : Mode) (x y : Int) (p : Nat) (mode : Option Mode)
    (hfit : ∀ d q r, i256DivModFloor prof x y d = .ok (some (q, r)) → fitsI128 q = true) :
    Gen.K.i128_mul_div_ten_pow_rounded prof tm x y p mode = i128MulDivTenPowRounded prof tm x y p mode := by
  unfold Gen.K.i128_mul_div_ten_pow_rounded i128MulDivTenPowRounded
  rw [ten_pow_eq]
  cases tenPow p with
  | panic k => rfl
  | ok d =>
    simp only [bind_ok']
    cases hdm : i256DivModFloor prof x y d with
    | panic k => rfl
    | ok o =>
      cases o with
      | none => rfl
      | some qr =>
        obtain ⟨q, r⟩ := qr
        have hq := hfit d q r hdm
        simp only [bind_ok', round_tail prof tm q _ _ mode hq, pure_eq']

end Fpdec.Kernels
