import Fpdec.Gen.KCmp
import Fpdec.Kernels.Pow
import Fpdec.Model.Decimal

/-! Tie: `impl PartialEq<Decimal> for Decimal` and `impl PartialOrd<Decimal> for Decimal` (macro bodies of cmp.rs instantiated with
the arguments of their first invocation) equal the hand-written model. -/

namespace Fpdec.Kernels
open Fpdec Fpdec.Model

theorem decimal_eq_eq (prof : Profile) (x y : Dec) (hp : x.nfrac < 256) (hq : y.nfrac < 256) :
    Gen.K.decimal_eq prof x y = .ok (decimalEq x y) := by
  unfold Gen.K.decimal_eq decimalEq
  rw [checked_adjust_coeffs_eq prof x.coeff x.nfrac y.coeff y.nfrac hp hq]
  simp only [bind_ok']
  generalize checkedAdjustCoeffs x.coeff x.nfrac y.coeff y.nfrac = r
  obtain ⟨a, b⟩ := r
  cases a <;> cases b <;> rfl

theorem decimal_partial_cmp_eq (prof : Profile) (x y : Dec) (hp : x.nfrac < 256) (hq : y.nfrac < 256) :
    Gen.K.decimal_partial_cmp prof x y = .ok (partialCmp x y) := by
  unfold Gen.K.decimal_partial_cmp partialCmp
  rw [checked_adjust_coeffs_eq prof x.coeff x.nfrac y.coeff y.nfrac hp hq]
  simp only [bind_ok']
  generalize checkedAdjustCoeffs x.coeff x.nfrac y.coeff y.nfrac = r
  obtain ⟨a, b⟩ := r
  cases a <;> cases b
  · rfl
  · simp only []
    by_cases h : x.coeff > 0 <;> simp [h]
  · simp only []
    by_cases h : y.coeff < 0 <;> simp [h]
  · rfl

/-! Integer forms (macro bodies instantiated with `u64` / `i64`; the macro is the same text for every listed type). -/

theorem decimal_eq_uint_eq (prof : Profile) (d : Dec) (i : Nat) :
    Gen.K.decimal_eq_uint prof d i = .ok (decEqInt false d i) := by
  unfold Gen.K.decimal_eq_uint decEqInt
  by_cases hn : isNegative d = true
  · simp [hn]
  · simp only [hn, Bool.false_eq_true, if_false, Bool.not_false, Bool.true_and]
    rw [checked_mul_pow_ten_eq prof _ _]
    simp only [bind_ok']
    cases checkedMulPowTen (i : Int) d.nfrac <;> rfl

theorem decimal_eq_sint_eq (prof : Profile) (d : Dec) (i : Int) :
    Gen.K.decimal_eq_sint prof d i = .ok (decEqInt true d i) := by
  unfold Gen.K.decimal_eq_sint decEqInt
  rw [checked_mul_pow_ten_eq prof _ _]
  simp only [bind_ok', Bool.not_true, Bool.false_and, Bool.false_eq_true, if_false]
  cases checkedMulPowTen i d.nfrac <;> rfl

theorem decimal_cmp_sint_eq (prof : Profile) (d : Dec) (i : Int) :
    Gen.K.decimal_cmp_sint prof d i = .ok (partialCmpDecInt true d i) := by
  unfold Gen.K.decimal_cmp_sint partialCmpDecInt
  rw [checked_mul_pow_ten_eq prof _ _]
  simp only [bind_ok', if_true]
  cases checkedMulPowTen i d.nfrac
  · by_cases h : i ≥ 0 <;> simp [h]
  · rfl

theorem sint_cmp_decimal_eq (prof : Profile) (i : Int) (d : Dec) :
    Gen.K.sint_cmp_decimal prof i d = .ok (partialCmpIntDec true i d) := by
  unfold Gen.K.sint_cmp_decimal partialCmpIntDec
  rw [checked_mul_pow_ten_eq prof _ _]
  simp only [bind_ok', if_true]
  cases checkedMulPowTen i d.nfrac
  · by_cases h : i < 0 <;> simp [h]
  · rfl

theorem decimal_cmp_uint_eq (prof : Profile) (d : Dec) (i : Nat) :
    Gen.K.decimal_cmp_uint prof d i = .ok (partialCmpDecInt false d i) := by
  unfold Gen.K.decimal_cmp_uint partialCmpDecInt
  by_cases hn : isNegative d = true
  · simp [hn]
  · simp only [hn, Bool.false_eq_true, if_false]
    rw [checked_mul_pow_ten_eq prof _ _]
    simp only [bind_ok']
    cases checkedMulPowTen (i : Int) d.nfrac <;> rfl

theorem uint_cmp_decimal_eq (prof : Profile) (i : Nat) (d : Dec) :
    Gen.K.uint_cmp_decimal prof i d = .ok (partialCmpIntDec false i d) := by
  unfold Gen.K.uint_cmp_decimal partialCmpIntDec
  by_cases hn : isNegative d = true
  · simp [hn]
  · simp only [hn, Bool.false_eq_true, if_false]
    rw [checked_mul_pow_ten_eq prof _ _]
    simp only [bind_ok']
    cases checkedMulPowTen (i : Int) d.nfrac <;> rfl

/-! `eq_zero`, `eq_one`, `is_negative`, `is_positive` (macro `impl_basics` instantiated with `Decimal`): the model functions that the
other translated kernels call for these methods. -/

theorem decimal_eq_zero_eq (prof : Profile) (d : Dec) : Gen.K.decimal_eq_zero prof d = .ok (eqZero d) := rfl
theorem decimal_is_negative_eq (prof : Profile) (d : Dec) : Gen.K.decimal_is_negative prof d = .ok (isNegative d) := rfl
theorem decimal_is_positive_eq (prof : Profile) (d : Dec) : Gen.K.decimal_is_positive prof d = .ok (isPositive d) := rfl
theorem decimal_eq_one_eq (prof : Profile) (d : Dec) : Gen.K.decimal_eq_one prof d = eqOne d := by
  unfold Gen.K.decimal_eq_one eqOne
  rw [ten_pow_eq]

end Fpdec.Kernels
