import Fpdec.Gen.KCmp
import Fpdec.Kernels.Pow
import Fpdec.Model.Decimal

/-! Tie: `impl PartialEq<Decimal> for Decimal` and `impl PartialOrd<Decimal> for Decimal` (macro bodies of cmp.rs instantiated with
the arguments of their first invocation) equal the hand-written model. -/

namespace Fpdec.Kernels
open Fpdec Fpdec.Model

theorem decimal_eq_eq (prof : Profile) (x y : Dec) (hp : x.nfrac < 256) (hq : y.nfrac < 256) :
    Gen.K.decimal_eq prof x y = .ok (decimalEq x y) := by
  unfold Gen.K.decimal_eq decimalEq
  rw [checked_adjust_coeffs_eq prof x.coeff x.nfrac y.coeff y.nfrac hp hq]
  simp only [bind_ok']
  generalize checkedAdjustCoeffs x.coeff x.nfrac y.coeff y.nfrac = r
  obtain ⟨a, b⟩ := r
  cases a <;> cases b <;> rfl

theorem decimal_partial_cmp_eq (prof : Profile) (x y : Dec) (hp : x.nfrac < 256) (hq : y.nfrac < 256) :
    Gen.K.decimal_partial_cmp prof x y = .ok (partialCmp x y) := by
  unfold Gen.K.decimal_partial_cmp partialCmp
  rw [checked_adjust_coeffs_eq prof x.coeff x.nfrac y.coeff y.nfrac hp hq]
  simp only [bind_ok']
  generalize checkedAdjustCoeffs x.coeff x.nfrac y.coeff y.nfrac = r
  obtain ⟨a, b⟩ := r
  cases a <;> cases b
  · rfl
  · simp only []
    by_cases h : x.coeff > 0 <;> simp [h]
  · simp only []
    by_cases h : y.coeff < 0 <;> simp [h]
  · rfl

end Fpdec.Kernels
