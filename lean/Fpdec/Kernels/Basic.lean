import Fpdec.Gen.Rt

/-!
Helper lemmas for the kernel ties.  `bind_ok'`/`pure_eq'` are the rewriting (non-`rfl`) versions of `Outcome.bind_ok` and
`Outcome.pure_eq`: `simp` then builds explicit congruence proofs instead of leaving a large definitional-equality check to the
kernel.
-/

namespace Fpdec.Kernels
open Fpdec

theorem bind_ok' {α β} (a : α) (f : α → Outcome β) : (Outcome.ok a >>= f) = f a := (Outcome.bind_ok a f).trans rfl
theorem bind_panic' {α β} (k : PanicKind) (f : α → Outcome β) : (Outcome.panic k >>= f) = Outcome.panic k :=
  (Outcome.bind_panic k f).trans rfl
theorem pure_eq' {α} (a : α) : (pure a : Outcome α) = .ok a := (Outcome.pure_eq a).trans rfl

theorem bind_congr {α β} (o : Outcome α) {f g : α → Outcome β} (h : ∀ a, f a = g a) : (o >>= f) = (o >>= g) := by
  have : f = g := funext h
  rw [this]

theorem wrapU_id (b n : Nat) (h : n < 2 ^ b) : Rt.wrapU b n = n := Nat.mod_eq_of_lt h

theorem plainU32_ok (prof : Profile) (n : Nat) (h : n < 4294967296) : Rt.plainU 32 prof (n : Int) = .ok n := by
  unfold Rt.plainU
  have e : (2 : Int) ^ 32 = 4294967296 := by decide
  rw [e]
  have : 0 ≤ (n : Int) ∧ (n : Int) < 4294967296 := by omega
  simp [this]

theorem plainU32_add (prof : Profile) (a b : Nat) (h : a + b < 4294967296) :
    Rt.plainU 32 prof ((a : Int) + b) = .ok (a + b) := by
  have := plainU32_ok prof (a + b) h
  rw [Int.natCast_add] at this; exact this

end Fpdec.Kernels

namespace Fpdec.Kernels
open Fpdec

theorem bind_inv {α β} {o : Outcome α} {f : α → Outcome β} {v : β} (h : (o >>= f) = .ok v) :
    ∃ a, o = .ok a ∧ f a = .ok v := by
  cases o with
  | ok a => exact ⟨a, rfl, h⟩
  | panic k => cases h

theorem bind_congr_ok {α β} (o : Outcome α) {f g : α → Outcome β} (h : ∀ a, o = .ok a → f a = g a) :
    (o >>= f) = (o >>= g) := by
  cases o with
  | ok a => exact h a rfl
  | panic k => rfl

theorem map_ok' {α β} (f : α → β) (a : α) : f <$> (Outcome.ok a) = Outcome.ok (f a) := (Outcome.map_ok f a).trans rfl

theorem map_bind {α β γ} (f : β → γ) (x : Outcome α) (g : α → Outcome β) :
    f <$> (x >>= g) = x >>= fun a => f <$> g a := by
  cases x <;> rfl

theorem bind_map {α β γ} (f : α → β) (x : Outcome α) (g : β → Outcome γ) :
    (f <$> x) >>= g = x >>= fun a => g (f a) := by
  cases x <;> rfl

theorem bind_assoc' {α β γ} (x : Outcome α) (f : α → Outcome β) (g : β → Outcome γ) :
    (x >>= f) >>= g = x >>= fun a => f a >>= g := by
  cases x <;> rfl

end Fpdec.Kernels
