import Fpdec.Gen.KNumTraits
import Fpdec.Kernels.Cmp
import Fpdec.Kernels.AddSub
import Fpdec.Kernels.DecUnops
import Fpdec.Kernels.IntConv
import Fpdec.Kernels.FromStr

/-! Tie: the `num-traits` forwarders of src/num_traits.rs (`Zero`, `One`, `Num::from_str_radix`, `Signed`) are the inherent
operations they forward to. -/

namespace Fpdec.Kernels
open Fpdec Fpdec.Model

theorem nt_zero_eq (prof : Profile) : Gen.K.nt_zero prof = .ok Dec.ZERO := rfl
theorem nt_one_eq (prof : Profile) : Gen.K.nt_one prof = .ok Dec.ONE := rfl
theorem nt_is_zero_eq (prof : Profile) (d : Dec) : Gen.K.nt_is_zero prof d = .ok (eqZero d) := rfl
theorem nt_is_positive_eq (prof : Profile) (d : Dec) : Gen.K.nt_is_positive prof d = .ok (isPositive d) := rfl
theorem nt_is_negative_eq (prof : Profile) (d : Dec) : Gen.K.nt_is_negative prof d = .ok (isNegative d) := rfl

theorem nt_is_one_eq (prof : Profile) (d : Dec) : Gen.K.nt_is_one prof d = eqOne d := by
  unfold Gen.K.nt_is_one
  cases eqOne d <;> rfl

theorem nt_abs_eq (prof : Profile) (d : Dec) : Gen.K.nt_abs prof d = abs prof d := by
  unfold Gen.K.nt_abs
  rw [decimal_abs_eq]

theorem nt_signum_eq (prof : Profile) (d : Dec) : Gen.K.nt_signum prof d = .ok (fromInt (Int.sign d.coeff)) := rfl

theorem nt_from_str_radix_eq (prof : Profile) (s : List Nat) (radix : Nat) :
    Gen.K.nt_from_str_radix prof s radix = (if radix ≠ 10 then .ok (.error .invalid) else fromStr prof s) := by
  unfold Gen.K.nt_from_str_radix
  by_cases h : radix ≠ 10
  · simp only [h, ne_eq, not_false_eq_true, decide_true, if_true, pure_eq']
  · have h' : radix = 10 := by omega
    subst h'
    simp only [ne_eq, not_true_eq_false, decide_false, Bool.false_eq_true, if_false, decimal_from_str_eq]

/-- `Signed::abs_sub`: zero when `self <= other` (through `partial_cmp`), else the difference -/
theorem nt_abs_sub_eq (prof : Profile) (x y : Dec) (hp : x.nfrac < 256) (hq : y.nfrac < 256) :
    Gen.K.nt_abs_sub prof x y =
      (if partialCmp x y = some .lt ∨ partialCmp x y = some .eq then .ok Dec.ZERO else addSub true x y) := by
  unfold Gen.K.nt_abs_sub
  rw [decimal_partial_cmp_eq prof x y hp hq, bind_ok']
  have hs := add_sub_eq prof true x y hp hq
  simp only [if_true] at hs
  by_cases h : partialCmp x y = some .lt ∨ partialCmp x y = some .eq
  · have hb : (decide (partialCmp x y = some Ordering.lt) || decide (partialCmp x y = some Ordering.eq)) = true := by
      simpa using h
    rw [if_pos hb, if_pos h]; rfl
  · have hb : ¬ ((decide (partialCmp x y = some Ordering.lt) || decide (partialCmp x y = some Ordering.eq)) = true) := by
      simpa using h
    rw [if_neg hb, if_neg h, hs]

end Fpdec.Kernels
