import Fpdec.Gen.KSwar
import Fpdec.Model.Parser

/-! Tie: the generated translations of the two SWAR functions of the parser equal the hand-written model. -/

namespace Fpdec.Kernels
open Fpdec Fpdec.Model

theorem pow64 : (2 : Nat) ^ 64 = 18446744073709551616 := by decide

theorem chunk_contains_8_digits_eq (prof : Profile) (c : Nat) :
    Gen.K.chunk_contains_8_digits prof c = .ok (chunkContains8Digits c) := by
  unfold Gen.K.chunk_contains_8_digits chunkContains8Digits wsub64 wadd64 U64M Rt.wrapU
  simp only [pow64, Outcome.pure_eq, Gen.SWAR_SUB, Gen.SWAR_ADD, Gen.SWAR_HI]
  congr 1

theorem chunk_to_u64_eq (prof : Profile) (c : Nat) :
    Gen.K.chunk_to_u64 prof c = .ok (chunkToU64 c) := by
  unfold Gen.K.chunk_to_u64 chunkToU64 wadd64 wmul64 U64M Rt.wrapU
  simp only [pow64, Outcome.pure_eq, Gen.SWAR_M1, Gen.SWAR_M2, Gen.SWAR_M3, Gen.SWAR_M4]

end Fpdec.Kernels
