import Fpdec.Gen.KNorm
import Fpdec.Kernels.Pow
import Fpdec.Model.Decimal

/-! Tie: the generated translation of `normalize` (src/lib.rs; a `while` loop, translated to fuel-bounded recursion) equals the
hand-written model; the fuel the translator supplies (256) always suffices because the loop counts `n_frac_digits: u8` down. -/

namespace Fpdec.Kernels
open Fpdec Fpdec.Model

theorem go_zero (c : Int) (n : Nat) : normalize.go 0 c n = (c, n) := rfl
theorem go_succ (f : Nat) (c : Int) (n : Nat) :
    normalize.go (f + 1) c n = if c.tmod 10 = 0 ∧ n > 0 then normalize.go f (c.tdiv 10) (n - 1) else (c, n) := rfl

theorem normalize_loop_eq (prof : Profile) : ∀ (F : Nat) (c : Int) (n f : Nat), n < F → n ≤ f → n < 256 →
    Gen.K.normalize_loop1 prof F c n = .ok (normalize.go f c n)
  | 0, c, n, f, h, _, _ => absurd h (Nat.not_lt_zero _)
  | F + 1, c, n, f, h, hf, hn => by
    unfold Gen.K.normalize_loop1
    by_cases hc : c.tmod 10 = 0 ∧ n > 0
    · have hb : (decide (Int.tmod c 10 = 0) && decide (n > 0)) = true := by simpa using hc
      have hn0 := hc.2
      obtain ⟨f', rfl⟩ : ∃ f', f = f' + 1 := ⟨f - 1, by omega⟩
      have hs : plainU8 prof ((n : Int) - 1) = .ok (n - 1) := by
        unfold plainU8
        have : 0 ≤ (n : Int) - 1 ∧ (n : Int) - 1 < 256 := by omega
        simp only [this, and_self, if_true]
        congr 1; omega
      simp only [hb, if_true, hs, bind_ok']
      rw [normalize_loop_eq prof F (c.tdiv 10) (n - 1) f' (by omega) (by omega) (by omega)]
      rw [go_succ, if_pos hc]
    · have hb : (decide (Int.tmod c 10 = 0) && decide (n > 0)) = false := by simpa using hc
      simp only [hb, Bool.false_eq_true, if_false, pure_eq']
      cases f with
      | zero => rw [go_zero]
      | succ f' => rw [go_succ, if_neg hc]

theorem normalize_eq (prof : Profile) (c : Int) (n : Nat) (hn : n < 256) :
    Gen.K.normalize prof c n = .ok (normalize c n) := by
  unfold Gen.K.normalize normalize
  by_cases hc : c = 0
  · simp [hc]
  · simp only [hc, decide_false, Bool.false_eq_true, if_false,
      normalize_loop_eq prof 256 c n n hn (Nat.le_refl _) hn, bind_ok', pure_eq']

end Fpdec.Kernels
