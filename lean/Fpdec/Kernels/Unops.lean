import Fpdec.Gen.KUnops
import Fpdec.Model.Decimal

/-! Tie: the generated translation of `DivModInt::div_floor` / `div_ceil` (src/unops.rs) equals the hand-written model. -/

namespace Fpdec.Kernels
open Fpdec Fpdec.Model

theorem div_floor_eq (prof : Profile) (x y : Int) : Gen.K.div_floor prof x y = divFloorI128 prof x y := by
  unfold Gen.K.div_floor Gen.K.divmod divFloorI128
  cases divI128 x y with
  | panic k => rfl
  | ok q =>
    cases remI128 x y with
    | panic k => rfl
    | ok r =>
      simp only [Outcome.bind_ok, Outcome.pure_eq]
      by_cases h : (r > 0 ∧ y < 0) ∨ (r < 0 ∧ y > 0)
      · have : ((decide (r > 0) && decide (y < 0)) || (decide (r < 0) && decide (y > 0))) = true := by simpa using h
        simp only [this, h, if_true]
      · have : ((decide (r > 0) && decide (y < 0)) || (decide (r < 0) && decide (y > 0))) = false := by simpa using h
        simp [this, h]

theorem div_ceil_eq (prof : Profile) (x y : Int) : Gen.K.div_ceil prof x y = divCeilI128 prof x y := by
  unfold Gen.K.div_ceil Gen.K.divmod divCeilI128
  cases divI128 x y with
  | panic k => rfl
  | ok q =>
    cases remI128 x y with
    | panic k => rfl
    | ok r =>
      simp only [Outcome.bind_ok, Outcome.pure_eq]
      by_cases h : (r > 0 ∧ y > 0) ∨ (r < 0 ∧ y < 0)
      · have : ((decide (r > 0) && decide (y > 0)) || (decide (r < 0) && decide (y < 0))) = true := by simpa using h
        simp only [this, h, if_true]
      · have : ((decide (r > 0) && decide (y > 0)) || (decide (r < 0) && decide (y < 0))) = false := by simpa using h
        simp [this, h]

end Fpdec.Kernels
