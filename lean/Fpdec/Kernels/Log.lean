import Fpdec.Gen.KLog
import Fpdec.Kernels.Basic
import Fpdec.Model.Core

/-!
Tie: the generated translations of the base-10 logarithm helpers equal the hand-written model.  The model has no overflow
effects in these functions; the tie proves that none can fire (the plain `+` on `u32` stays far below `2^32` for every argument
the callers can pass).
-/

namespace Fpdec.Kernels
open Fpdec Fpdec.Model

theorem less_than_5_eq (prof : Profile) (val : Nat) (h : val < 4294050792) :
    Gen.K.less_than_5 prof val = .ok (lessThan5 val) := by
  unfold Gen.K.less_than_5
  have e1 : Rt.plainU 32 prof ((val : Int) + 393206) = .ok (val + 393206) := plainU32_add prof val 393206 (by omega)
  have e2 : Rt.plainU 32 prof ((val : Int) + 524188) = .ok (val + 524188) := plainU32_add prof val 524188 (by omega)
  have e3 : Rt.plainU 32 prof ((val : Int) + 916504) = .ok (val + 916504) := plainU32_add prof val 916504 (by omega)
  have e4 : Rt.plainU 32 prof ((val : Int) + 514288) = .ok (val + 514288) := plainU32_add prof val 514288 (by omega)
  rw [e1, e2, e3, e4]
  rfl

theorem lessThan5_lt (val : Nat) (h : val < 4294050792) : lessThan5 val < 32768 := by
  unfold lessThan5 Gen.LOG_LT5_C1 Gen.LOG_LT5_C2 Gen.LOG_LT5_C3 Gen.LOG_LT5_C4
  have a : (val + 393206) &&& (val + 524188) < 2 ^ 32 := Nat.and_lt_two_pow _ (by omega)
  have b : (val + 916504) &&& (val + 514288) < 2 ^ 32 := Nat.and_lt_two_pow _ (by omega)
  have c := Nat.xor_lt_two_pow a b
  rw [Nat.shiftRight_eq_div_pow]
  omega

theorem u32_eq (prof : Profile) (val : Nat) (h : val < 4294967296) :
    Gen.K.u32 prof val = .ok (log10U32 val) := by
  unfold Gen.K.u32 log10U32 Gen.LOG_U32_T
  have e5 : Rt.plainU 32 prof (5 : Int) = .ok 5 := plainU32_ok prof 5 (by decide)
  by_cases hv : val ≥ 100000
  · have hb : val / 100000 < 4294050792 := by omega
    have hl := lessThan5_lt _ hb
    have e : Rt.plainU 32 prof ((5 : Int) + lessThan5 (val / 100000)) = .ok (5 + lessThan5 (val / 100000)) :=
      plainU32_add prof 5 (lessThan5 (val / 100000)) (by omega)
    simp only [hv, decide_true, if_true, Int.natCast_zero, Int.zero_add, e5, bind_ok', pure_eq',
      less_than_5_eq prof _ hb]
    exact e
  · have hb : val < 4294050792 := by omega
    have hl := lessThan5_lt _ hb
    have e := plainU32_add prof 0 (lessThan5 val) (by omega)
    simp only [Nat.zero_add] at e
    simp only [hv, decide_false, Bool.false_eq_true, if_false, bind_ok', pure_eq', less_than_5_eq prof _ hb]
    exact e

theorem log10U32_lt (val : Nat) (h : val < 4294967296) : log10U32 val < 32768 + 5 := by
  unfold log10U32 Gen.LOG_U32_T
  split
  · have := lessThan5_lt (val / 100000) (by omega); omega
  · have := lessThan5_lt val (by omega); omega

theorem lit32 (prof : Profile) (n : Nat) (h : n < 4294967296) : Rt.plainU 32 prof (OfNat.ofNat n : Int) = .ok n :=
  plainU32_ok prof n h

theorem u64_eq (prof : Profile) (val : Nat) (h : val < 18446744073709551616) :
    Gen.K.u64 prof val = .ok (log10U64 val) := by
  unfold Gen.K.u64 log10U64 Gen.LOG_U64_T1 Gen.LOG_U64_T2
  have e5 := lit32 prof 5 (by decide)
  have e10 := lit32 prof 10 (by decide)
  have e15 : Rt.plainU 32 prof ((10 : Nat) + (5 : Int)) = .ok 15 := lit32 prof 15 (by decide)
  have p32 : (2 : Nat) ^ 32 = 4294967296 := rfl
  by_cases h1 : val ≥ 10000000000
  · by_cases h2 : val / 10000000000 ≥ 100000
    · have hb : val / 10000000000 / 100000 < 100000 := by omega
      have hl := lessThan5_lt _ (by omega : val / 10000000000 / 100000 < 4294050792)
      simp only [h1, h2, decide_true, if_true, Int.natCast_zero, Int.zero_add, e10, e15, bind_ok', pure_eq',
        wrapU_id 32 _ (by omega : val / 10000000000 / 100000 < 2 ^ 32), less_than_5_eq prof _ (by omega : val / 10000000000 / 100000 < 4294050792),
        p32, Nat.mod_eq_of_lt (by omega : val / 10000000000 / 100000 < 4294967296)]
      exact plainU32_add prof 15 _ (by omega)
    · have hl := lessThan5_lt _ (by omega : val / 10000000000 < 4294050792)
      simp only [h1, h2, decide_true, decide_false, Bool.false_eq_true, if_true, if_false, Int.natCast_zero, Int.zero_add, e10,
        bind_ok', pure_eq',
        wrapU_id 32 _ (by omega : val / 10000000000 < 2 ^ 32), less_than_5_eq prof _ (by omega : val / 10000000000 < 4294050792),
        p32, Nat.mod_eq_of_lt (by omega : val / 10000000000 < 4294967296)]
      exact plainU32_add prof 10 _ (by omega)
  · by_cases h2 : val ≥ 100000
    · have hl := lessThan5_lt _ (by omega : val / 100000 < 4294050792)
      simp only [h1, h2, decide_true, decide_false, Bool.false_eq_true, if_true, if_false, Int.natCast_zero, Int.zero_add, e5,
        bind_ok', pure_eq',
        wrapU_id 32 _ (by omega : val / 100000 < 2 ^ 32), less_than_5_eq prof _ (by omega : val / 100000 < 4294050792),
        p32, Nat.mod_eq_of_lt (by omega : val / 100000 < 4294967296)]
      exact plainU32_add prof 5 _ (by omega)
    · have hl := lessThan5_lt _ (by omega : val < 4294050792)
      simp only [h1, h2, decide_false, Bool.false_eq_true, if_false, Int.natCast_zero, Int.zero_add,
        bind_ok', pure_eq',
        wrapU_id 32 _ (by omega : val < 2 ^ 32), less_than_5_eq prof _ (by omega : val < 4294050792),
        p32, Nat.mod_eq_of_lt (by omega : val < 4294967296)]
      have := plainU32_add prof 0 (lessThan5 val) (by omega)
      simp only [Nat.zero_add, Int.natCast_zero, Int.zero_add] at this ⊢
      exact this

theorem log10U64_lt (val : Nat) (h : val < 18446744073709551616) : log10U64 val < 32768 + 15 := by
  unfold log10U64 Gen.LOG_U64_T1 Gen.LOG_U64_T2
  have p32 : (2 : Nat) ^ 32 = 4294967296 := rfl
  by_cases h1 : val ≥ 10000000000
  · by_cases h2 : val / 10000000000 ≥ 100000
    · have hl := lessThan5_lt _ (by omega : val / 10000000000 / 100000 < 4294050792)
      simp only [h1, h2, if_true, p32, Nat.mod_eq_of_lt (by omega : val / 10000000000 / 100000 < 4294967296)]
      omega
    · have hl := lessThan5_lt _ (by omega : val / 10000000000 < 4294050792)
      simp only [h1, h2, if_true, if_false, p32, Nat.mod_eq_of_lt (by omega : val / 10000000000 < 4294967296)]
      omega
  · by_cases h2 : val ≥ 100000
    · have hl := lessThan5_lt _ (by omega : val / 100000 < 4294050792)
      simp only [h1, h2, if_true, if_false, p32, Nat.mod_eq_of_lt (by omega : val / 100000 < 4294967296)]
      omega
    · have hl := lessThan5_lt _ (by omega : val < 4294050792)
      simp only [h1, h2, if_false, p32, Nat.mod_eq_of_lt (by omega : val < 4294967296)]
      omega

theorem u128_eq (prof : Profile) (val : Nat) (h : val < 340282366920938463463374607431768211456) :
    Gen.K.u128 prof val = .ok (log10U128 val) := by
  unfold Gen.K.u128 log10U128 Gen.LOG_U128_T1 Gen.LOG_U128_T2
  have e16 := lit32 prof 16 (by decide)
  have e32 := lit32 prof 32 (by decide)
  have p32 : (2 : Nat) ^ 32 = 4294967296 := rfl
  have p64 : (2 : Nat) ^ 64 = 18446744073709551616 := rfl
  by_cases h1 : val ≥ 100000000000000000000000000000000
  · have hb : val / 100000000000000000000000000000000 < 4294967296 := by omega
    have hl := log10U32_lt _ hb
    simp only [h1, decide_true, if_true, Int.natCast_zero, Int.zero_add, e32, bind_ok', pure_eq',
      wrapU_id 32 _ (by omega : val / 100000000000000000000000000000000 < 2 ^ 32), u32_eq prof _ hb,
      p32, Nat.mod_eq_of_lt hb]
    exact plainU32_add prof 32 _ (by omega)
  · by_cases h2 : val ≥ 10000000000000000
    · have hb : val / 10000000000000000 < 18446744073709551616 := by omega
      have hl := log10U64_lt _ hb
      simp only [h1, h2, decide_true, decide_false, Bool.false_eq_true, if_true, if_false, Int.natCast_zero, Int.zero_add, e16,
        bind_ok', pure_eq', wrapU_id 64 _ (by omega : val / 10000000000000000 < 2 ^ 64), u64_eq prof _ hb,
        p64, Nat.mod_eq_of_lt hb]
      exact plainU32_add prof 16 _ (by omega)
    · have hb : val < 18446744073709551616 := by omega
      have hl := log10U64_lt _ hb
      simp only [h1, h2, decide_false, Bool.false_eq_true, if_false, Int.natCast_zero, Int.zero_add,
        bind_ok', pure_eq', wrapU_id 64 _ (by omega : val < 2 ^ 64), u64_eq prof _ hb,
        p64, Nat.mod_eq_of_lt hb]
      have := plainU32_add prof 0 (log10U64 val) (by omega)
      simp only [Nat.zero_add, Int.natCast_zero, Int.zero_add] at this ⊢
      exact this

end Fpdec.Kernels
