import Fpdec.Gen.KIntConv
import Fpdec.Kernels.Pow
import Fpdec.Model.Decimal

/-! Tie: `impl TryFrom<Decimal> for i128` and the macro-generated `impl TryFrom<Decimal> for $t` (instantiated at `$t = i64`;
the body only depends on the type through the range test) equal the hand-written model. -/

namespace Fpdec.Kernels
open Fpdec Fpdec.Model

/-- the model's error type seen as `fpdec::TryFromDecimalError` -/
def intoResult : Except IntoIntErr Int → Except Rt.TryFromDecimalError Int
  | .ok i => .ok i
  | .error .notAnInt => .error .notAnIntValue
  | .error .outOfRange => .error .valueOutOfRange

theorem i128_try_from_decimal_eq (prof : Profile) (d : Dec) :
    Gen.K.i128_try_from_decimal prof d = intoResult <$> intoI128 d := by
  unfold Gen.K.i128_try_from_decimal intoI128
  by_cases h : d.nfrac = 0 ∨ d.coeff = 0
  · have hb : (decide (d.nfrac = 0) || decide (d.coeff = 0)) = true := by simpa using h
    simp only [hb, h, if_true, pure_eq']
    rfl
  · have hb : (decide (d.nfrac = 0) || decide (d.coeff = 0)) = false := by simpa using h
    simp only [hb, h, Bool.false_eq_true, if_false, ten_pow_eq]
    cases tenPow d.nfrac with
    | panic k => rfl
    | ok t =>
      simp only [bind_ok']
      cases remI128 d.coeff t with
      | panic k => rfl
      | ok r =>
        simp only [bind_ok']
        by_cases hr : r = 0
        · simp only [hr, decide_true, if_true]
          cases divI128 d.coeff t <;> rfl
        · simp only [hr, decide_false, Bool.false_eq_true, if_false]
          rfl

theorem i64_try_from_decimal_eq (prof : Profile) (d : Dec) :
    Gen.K.i64_try_from_decimal prof d = intoResult <$> intoInt IntTy.i64 d := by
  unfold Gen.K.i64_try_from_decimal intoInt
  rw [i128_try_from_decimal_eq]
  cases intoI128 d with
  | panic k => rfl
  | ok r =>
    cases r with
    | error e => cases e <;> rfl
    | ok i =>
      simp only [map_ok', bind_ok', intoResult]
      by_cases hf : IntTy.i64.fits i = true
      · simp only [hf, if_true, pure_eq', map_ok', intoResult]
      · simp only [hf, Bool.false_eq_true, if_false, pure_eq', map_ok', intoResult]

theorem decimal_from_int_eq (prof : Profile) (i : Int) : Gen.K.decimal_from_int prof i = .ok (fromInt i) := rfl

theorem decimal_try_from_u128_eq (prof : Profile) (i : Nat) :
    Gen.K.decimal_try_from_u128 prof i =
      .ok (match tryFromU128 i with | some d => .ok d | none => .error .internalOverflow) := by
  unfold Gen.K.decimal_try_from_u128 tryFromU128
  by_cases h : (i : Int) ≤ I128_MAX
  · simp only [h, if_true, decimal_from_int_eq, bind_ok', pure_eq']; rfl
  · simp only [h, if_false, pure_eq']

end Fpdec.Kernels
