import Fpdec.Gen.KPow
import Fpdec.Kernels.Basic
import Fpdec.Model.Core
import Fpdec.Lemmas.Basic

/-! Tie: generated translations of the power-of-ten helpers and `checked_adjust_coeffs` equal the hand-written model. -/

namespace Fpdec.Kernels
open Fpdec Fpdec.Model

theorem ten_pow_eq (prof : Profile) (n : Nat) : Gen.K.ten_pow prof n = tenPow n := by
  unfold Gen.K.ten_pow tenPow Rt.index
  cases Gen.POWERS_OF_10[n]? <;> rfl

theorem pow_table_size : Gen.POWERS_OF_10.size = 39 := by decide

theorem checked_ten_pow_eq (prof : Profile) (n : Nat) : Gen.K.checked_ten_pow prof n = .ok (checkedTenPow n) := by
  unfold Gen.K.checked_ten_pow checkedTenPow Gen.CHECKED_TEN_POW_LIMIT Rt.index
  by_cases h : n > 38
  · simp [h]
  · have hlt : n < Gen.POWERS_OF_10.size := by rw [pow_table_size]; omega
    simp only [h, decide_false, Bool.false_eq_true, if_false, Array.getElem?_eq_getElem hlt]
    rfl

theorem mul_pow_ten_eq (prof : Profile) (val : Int) (n : Nat) : Gen.K.mul_pow_ten prof val n = mulPowTen val n := by
  unfold Gen.K.mul_pow_ten mulPowTen
  rw [ten_pow_eq]
  cases tenPow n with
  | panic k => rfl
  | ok t =>
    simp only [bind_ok']
    cases checkedI128 (val * t) <;> rfl

theorem checked_mul_pow_ten_eq (prof : Profile) (val : Int) (n : Nat) :
    Gen.K.checked_mul_pow_ten prof val n = .ok (checkedMulPowTen val n) := by
  unfold Gen.K.checked_mul_pow_ten checkedMulPowTen
  rw [checked_ten_pow_eq]
  simp only [bind_ok']
  cases checkedTenPow n <;> rfl

theorem plainU8_sub (prof : Profile) (p q : Nat) (hp : p < 256) (h : q < p) :
    plainU8 prof ((p : Int) - q) = .ok (p - q) := by
  unfold plainU8
  have : 0 ≤ (p : Int) - q ∧ (p : Int) - q < 256 := by omega
  simp only [this, and_self, if_true]
  congr 1; omega

theorem checked_adjust_coeffs_eq (prof : Profile) (x : Int) (p : Nat) (y : Int) (q : Nat) (hp : p < 256) (hq : q < 256) :
    Gen.K.checked_adjust_coeffs prof x p y q = .ok (checkedAdjustCoeffs x p y q) := by
  unfold Gen.K.checked_adjust_coeffs checkedAdjustCoeffs
  rcases Nat.lt_trichotomy p q with h | h | h
  · have hc : compare p q = .lt := Nat.compare_eq_lt.mpr h
    simp only [hc, plainU8_sub prof q p hq h, bind_ok', checked_mul_pow_ten_eq, pure_eq']
  · have hc : compare p q = .eq := Nat.compare_eq_eq.mpr h
    simp only [hc, pure_eq']
  · have hc : compare p q = .gt := Nat.compare_eq_gt.mpr h
    simp only [hc, plainU8_sub prof p q hp h, bind_ok', checked_mul_pow_ten_eq, pure_eq']

end Fpdec.Kernels
