import Fpdec.Gen.KDecUnops
import Fpdec.Kernels.Unops
import Fpdec.Kernels.Pow
import Fpdec.Model.Decimal

/-! Tie: the generated translations of the unary operations of `Decimal` (src/unops.rs: `neg` for `Decimal` and `&Decimal`, `abs`,
`floor`, `ceil`, `trunc`, `fract`) equal the hand-written model. -/

namespace Fpdec.Kernels
open Fpdec Fpdec.Model

theorem decimal_neg_eq (prof : Profile) (d : Dec) : Gen.K.decimal_neg prof d = neg prof d := rfl
theorem decimal_ref_neg_eq (prof : Profile) (d : Dec) : Gen.K.decimal_ref_neg prof d = neg prof d := rfl
theorem decimal_abs_eq (prof : Profile) (d : Dec) : Gen.K.decimal_abs prof d = abs prof d := rfl

theorem decimal_floor_eq (prof : Profile) (d : Dec) : Gen.K.decimal_floor prof d = floor prof d := by
  unfold Gen.K.decimal_floor floor
  cases hn : d.nfrac with
  | zero => rfl
  | succ n =>
    simp only [ten_pow_eq, div_floor_eq]

theorem decimal_ceil_eq (prof : Profile) (d : Dec) : Gen.K.decimal_ceil prof d = ceil prof d := by
  unfold Gen.K.decimal_ceil ceil
  cases hn : d.nfrac with
  | zero => rfl
  | succ n =>
    simp only [ten_pow_eq, div_ceil_eq]

theorem decimal_trunc_eq (prof : Profile) (d : Dec) : Gen.K.decimal_trunc prof d = trunc d := by
  unfold Gen.K.decimal_trunc trunc
  cases hn : d.nfrac with
  | zero => rfl
  | succ n =>
    simp only [ten_pow_eq]

theorem decimal_fract_eq (prof : Profile) (d : Dec) : Gen.K.decimal_fract prof d = fract d := by
  unfold Gen.K.decimal_fract fract
  cases hn : d.nfrac with
  | zero => rfl
  | succ n =>
    simp only [ten_pow_eq]

end Fpdec.Kernels
