import Fpdec.Gen.KDecOps
import Fpdec.Kernels.DecMul
import Fpdec.Kernels.Norm

/-! Tie: the generated translations of the Decimal-by-Decimal operator bodies — `Mul::mul`, `CheckedMul::checked_mul`,
`MulRounded::mul_rounded`, `Div::div`, `CheckedDiv::checked_div`, `DivRounded::div_rounded` — equal the hand-written model. -/

namespace Fpdec.Kernels
open Fpdec Fpdec.Model

theorem decimal_mul_eq (prof : Profile) (tm : Mode) (x y : Dec) :
    Gen.K.decimal_mul prof tm x y = mul prof tm x y := by
  unfold Gen.K.decimal_mul mul
  by_cases h0 : (eqZero x || eqZero y) = true
  · simp only [h0, if_true, pure_eq']
  · simp only [h0, Bool.false_eq_true, if_false]
    cases h1 : eqOne y with
    | panic k => simp only [bind_panic']
    | ok b1 =>
      cases b1 with
      | true => simp only [bind_ok', if_true, pure_eq']
      | false =>
        simp only [bind_ok', Bool.false_eq_true, if_false]
        cases h2 : eqOne x with
        | panic k => simp only [bind_panic']
        | ok b2 =>
          cases b2 with
          | true => simp only [bind_ok', if_true, pure_eq']
          | false =>
            simp only [bind_ok', Bool.false_eq_true, if_false,
              checked_mul_rounded_eq prof tm x y Gen.MAX_N_FRAC_DIGITS (by decide)]
            cases checkedMulRounded prof tm x y Gen.MAX_N_FRAC_DIGITS with
            | panic k => simp only [bind_panic']
            | ok o => cases o <;> simp only [bind_ok', pure_eq']

theorem decimal_checked_mul_eq (prof : Profile) (x y : Dec) :
    Gen.K.decimal_checked_mul prof x y = checkedMul prof x y := by
  unfold Gen.K.decimal_checked_mul checkedMul
  by_cases h0 : (eqZero x || eqZero y) = true
  · simp only [h0, if_true, pure_eq']
  · simp only [h0, Bool.false_eq_true, if_false]
    cases h1 : eqOne y with
    | panic k => simp only [bind_panic']
    | ok b1 =>
      cases b1 with
      | true => simp only [bind_ok', if_true, pure_eq']
      | false =>
        simp only [bind_ok', Bool.false_eq_true, if_false]
        cases h2 : eqOne x with
        | panic k => simp only [bind_panic']
        | ok b2 =>
          cases b2 with
          | true => simp only [bind_ok', if_true, pure_eq']
          | false =>
            simp only [bind_ok', Bool.false_eq_true, if_false]
            rw [show ((x.nfrac : Int) + (y.nfrac : Int)) = ((x.nfrac + y.nfrac : Nat) : Int) from (Int.natCast_add _ _).symm]
            cases plainU8 prof ((x.nfrac + y.nfrac : Nat) : Int) with
            | panic k => simp only [bind_panic']
            | ok n =>
              simp only [bind_ok']
              by_cases h3 : n > Gen.MAX_N_FRAC_DIGITS
              · simp only [h3, decide_true, if_true, pure_eq']
              · simp only [h3, decide_false, Bool.false_eq_true, if_false]
                cases checkedI128 (x.coeff * y.coeff) <;> simp only [pure_eq']

theorem decimal_mul_rounded_eq (prof : Profile) (tm : Mode) (x y : Dec) (n : Nat) (hn : n < 256) :
    Gen.K.decimal_mul_rounded prof tm x y n = mulRounded prof tm x y n := by
  unfold Gen.K.decimal_mul_rounded mulRounded
  by_cases h : n > Gen.MAX_N_FRAC_DIGITS
  · simp only [h, decide_true, if_true]
  · simp only [h, decide_false, Bool.false_eq_true, if_false]
    by_cases h0 : (eqZero x || eqZero y) = true
    · simp only [h0, if_true, pure_eq']
    · simp only [h0, Bool.false_eq_true, if_false, checked_mul_rounded_eq prof tm x y n hn]
      cases checkedMulRounded prof tm x y n with
      | panic k => simp only [bind_panic']
      | ok o => cases o <;> simp only [bind_ok', pure_eq']

theorem div_core_eq (prof : Profile) (tm : Mode) (x y : Dec) (hx : fitsI128 x.coeff = true) (hp : x.nfrac ≤ 38) :
    (do let t2 ← Gen.K.checked_div_rounded prof tm x.coeff x.nfrac y.coeff y.nfrac Gen.MAX_N_FRAC_DIGITS
        match t2 with
        | some coeff => do
          let (coeff, n_frac_digits) ← Gen.K.normalize prof coeff Gen.MAX_N_FRAC_DIGITS
          pure (some (⟨coeff, n_frac_digits⟩ : Dec))
        | none => pure none : Outcome (Option Dec)) = divCore prof tm x.coeff x.nfrac y.coeff y.nfrac := by
  unfold divCore
  rw [checked_div_rounded_eq prof tm x.coeff x.nfrac y.coeff y.nfrac Gen.MAX_N_FRAC_DIGITS hx hp]
  cases checkedDivRounded prof tm x.coeff x.nfrac y.coeff y.nfrac Gen.MAX_N_FRAC_DIGITS with
  | panic k => simp only [bind_panic']
  | ok o =>
    cases o with
    | none => simp only [bind_ok', pure_eq']
    | some c =>
      simp only [bind_ok', normalize_eq prof c Gen.MAX_N_FRAC_DIGITS (by decide), pure_eq']

theorem decimal_div_eq (prof : Profile) (tm : Mode) (x y : Dec) (hx : fitsI128 x.coeff = true) (hp : x.nfrac ≤ 38) :
    Gen.K.decimal_div prof tm x y = div prof tm x y := by
  unfold Gen.K.decimal_div div
  by_cases hz : eqZero y = true
  · simp only [hz, if_true]
  · simp only [hz, Bool.false_eq_true, if_false]
    by_cases h0 : eqZero x = true
    · simp only [h0, if_true, pure_eq']
    · simp only [h0, Bool.false_eq_true, if_false]
      cases h1 : eqOne y with
      | panic k => simp only [bind_panic']
      | ok b1 =>
        cases b1 with
        | true => simp only [bind_ok', if_true, pure_eq']
        | false =>
          simp only [bind_ok', Bool.false_eq_true, if_false]
          rw [← div_core_eq prof tm x y hx hp]
          simp only [bind_assoc']
          refine bind_congr _ (fun o => ?_)
          cases o with
          | none => simp only [pure_eq', bind_ok']
          | some c =>
            simp only [bind_assoc']
            refine bind_congr _ (fun cn => ?_)
            simp only [pure_eq', bind_ok']

theorem decimal_checked_div_eq (prof : Profile) (tm : Mode) (x y : Dec) (hx : fitsI128 x.coeff = true) (hp : x.nfrac ≤ 38) :
    Gen.K.decimal_checked_div prof tm x y = checkedDiv prof tm x y := by
  unfold Gen.K.decimal_checked_div checkedDiv
  by_cases hz : eqZero y = true
  · simp only [hz, if_true, pure_eq']
  · simp only [hz, Bool.false_eq_true, if_false]
    by_cases h0 : eqZero x = true
    · simp only [h0, if_true, pure_eq']
    · simp only [h0, Bool.false_eq_true, if_false]
      cases h1 : eqOne y with
      | panic k => simp only [bind_panic']
      | ok b1 =>
        cases b1 with
        | true => simp only [bind_ok', if_true, pure_eq']
        | false =>
          simp only [bind_ok', Bool.false_eq_true, if_false]
          rw [← div_core_eq prof tm x y hx hp]
          refine bind_congr _ (fun o => ?_)
          cases o with
          | none => rfl
          | some c => rfl

theorem decimal_div_rounded_eq (prof : Profile) (tm : Mode) (x y : Dec) (n : Nat) (hx : fitsI128 x.coeff = true)
    (hp : x.nfrac ≤ 38) :
    Gen.K.decimal_div_rounded prof tm x y n = divRounded prof tm x y n := by
  unfold Gen.K.decimal_div_rounded divRounded
  by_cases h : n > Gen.MAX_N_FRAC_DIGITS
  · simp only [h, decide_true, if_true]
  · simp only [h, decide_false, Bool.false_eq_true, if_false]
    by_cases hz : eqZero y = true
    · simp only [hz, if_true]
    · simp only [hz, Bool.false_eq_true, if_false]
      by_cases h0 : eqZero x = true
      · simp only [h0, if_true, pure_eq']
      · simp only [h0, Bool.false_eq_true, if_false, checked_div_rounded_eq prof tm x.coeff x.nfrac y.coeff y.nfrac n hx hp]
        cases checkedDivRounded prof tm x.coeff x.nfrac y.coeff y.nfrac n with
        | panic k => simp only [bind_panic']
        | ok o => cases o <;> simp only [bind_ok', pure_eq']

end Fpdec.Kernels
