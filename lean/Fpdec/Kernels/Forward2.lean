import Fpdec.Gen.KForward2
import Fpdec.Kernels.Forward
import Fpdec.Kernels.Cmp

/-! Tie for the hand-written reference forms of `div_rounded` with an integer operand (the two macros of src/binops/div_rounded.rs:
`&Decimal / int`, `Decimal / &int`, `&Decimal / &int`, `&int / Decimal`, `int / &Decimal`, `&int / &Decimal`, `&int / int`, `int / &int`,
`&int / &int`) and for `int == Decimal`: each is, as translated on this run, the by-value form on the dereferenced operands
(`int == Decimal` with the operands exchanged). -/

namespace Fpdec.Kernels
open Fpdec Fpdec.Model

theorem refdec_divr_int_eq (prof : Profile) (tm : Mode) (d : Dec) (i : Int) (n : Nat) :
    Gen.K.refdec_divr_int prof tm d i n = Gen.K.decimal_div_rounded_int prof tm d i n := by
  unfold Gen.K.refdec_divr_int; first | rfl | exact bind_pure _
theorem dec_divr_refint_eq (prof : Profile) (tm : Mode) (d : Dec) (i : Int) (n : Nat) :
    Gen.K.dec_divr_refint prof tm d i n = Gen.K.decimal_div_rounded_int prof tm d i n := by
  unfold Gen.K.dec_divr_refint; first | rfl | exact bind_pure _
theorem refdec_divr_refint_eq (prof : Profile) (tm : Mode) (d : Dec) (i : Int) (n : Nat) :
    Gen.K.refdec_divr_refint prof tm d i n = Gen.K.decimal_div_rounded_int prof tm d i n := by
  unfold Gen.K.refdec_divr_refint; first | rfl | exact bind_pure _
theorem refint_divr_dec_eq (prof : Profile) (tm : Mode) (i : Int) (d : Dec) (n : Nat) :
    Gen.K.refint_divr_dec prof tm i d n = Gen.K.int_div_rounded_decimal prof tm i d n := by
  unfold Gen.K.refint_divr_dec; first | rfl | exact bind_pure _
theorem int_divr_refdec_eq (prof : Profile) (tm : Mode) (i : Int) (d : Dec) (n : Nat) :
    Gen.K.int_divr_refdec prof tm i d n = Gen.K.int_div_rounded_decimal prof tm i d n := by
  unfold Gen.K.int_divr_refdec; first | rfl | exact bind_pure _
theorem refint_divr_refdec_eq (prof : Profile) (tm : Mode) (i : Int) (d : Dec) (n : Nat) :
    Gen.K.refint_divr_refdec prof tm i d n = Gen.K.int_div_rounded_decimal prof tm i d n := by
  unfold Gen.K.refint_divr_refdec; first | rfl | exact bind_pure _
theorem refint_divr_int_eq (prof : Profile) (tm : Mode) (i j : Int) (n : Nat) :
    Gen.K.refint_divr_int prof tm i j n = Gen.K.int_div_rounded_int prof tm i j n := by
  unfold Gen.K.refint_divr_int; first | rfl | exact bind_pure _
theorem int_divr_refint_eq (prof : Profile) (tm : Mode) (i j : Int) (n : Nat) :
    Gen.K.int_divr_refint prof tm i j n = Gen.K.int_div_rounded_int prof tm i j n := by
  unfold Gen.K.int_divr_refint; first | rfl | exact bind_pure _
theorem refint_divr_refint_eq (prof : Profile) (tm : Mode) (i j : Int) (n : Nat) :
    Gen.K.refint_divr_refint prof tm i j n = Gen.K.int_div_rounded_int prof tm i j n := by
  unfold Gen.K.refint_divr_refint; first | rfl | exact bind_pure _

/-- `int == Decimal` is `Decimal == int` -/
theorem sint_eq_decimal_eq (prof : Profile) (i : Int) (d : Dec) :
    Gen.K.sint_eq_decimal prof i d = .ok (decEqInt true d i) := by
  unfold Gen.K.sint_eq_decimal
  rw [decimal_eq_sint_eq]

end Fpdec.Kernels
