import Fpdec.Gen.KRound
import Fpdec.Lemmas.Rounding

/-!
Tie: the generated translations of `i128_div_mod_floor` (fpdec-core/src/lib.rs) and `round_quot` (fpdec-core/src/rounding.rs)
equal the hand-written model.  For `round_quot` the model abstracts the plain `quot + 1` inside the `Round05Up` condition (it is
only evaluated for `quot < 0`); the tie shows that this effect never fires for an i128 quotient.
-/

namespace Fpdec.Kernels
open Fpdec Fpdec.Model

theorem i128_div_mod_floor_eq (prof : Profile) (x y : Int) :
    Gen.K.i128_div_mod_floor prof x y = i128DivModFloor prof x y := by
  unfold Gen.K.i128_div_mod_floor i128DivModFloor
  cases divI128 x y with
  | panic k => rfl
  | ok q =>
    cases remI128 x y with
    | panic k => rfl
    | ok r =>
      simp only [Outcome.bind_ok, Outcome.pure_eq]
      by_cases h : (r > 0 ∧ y < 0) ∨ (r < 0 ∧ y > 0)
      · have : ((decide (r > 0) && decide (y < 0)) || (decide (r < 0) && decide (y > 0))) = true := by simpa using h
        simp only [this, h, if_true]
      · have : ((decide (r > 0) && decide (y < 0)) || (decide (r < 0) && decide (y > 0))) = false := by simpa using h
        simp [this, h]

theorem wrap_shl1 (rem : Nat) : Rt.wrapU 128 (rem <<< 1) = wrapU128 (rem <<< 1) := by
  unfold wrapU128 Rt.wrapU; rfl

theorem round_quot_some (prof : Profile) (tm : Mode) (quot : Int) (rem divisor : Nat) (md : Mode)
    (hq : fitsI128 quot = true) :
    Gen.K.round_quot prof tm quot rem divisor (some md) = .ok (roundQuot tm quot rem divisor (some md)) := by
  unfold Gen.K.round_quot roundQuot
  by_cases hr : rem = 0
  · simp [hr]
  · simp only [hr, decide_false, Bool.false_eq_true, if_false]
    rw [fitsI128_iff] at hq
    cases md
    · -- Round05Up: the inner `quot + 1` is evaluated only for `quot < 0`, where it fits
      by_cases c2 : (quot ≥ 0 ∧ quot.tmod 5 = 0) ∨ (quot < 0 ∧ (quot + 1).tmod 5 ≠ 0)
      · rw [if_pos c2]
        rcases c2 with h0 | ⟨hneg, h5⟩
        · have c1 : (decide (quot ≥ 0) && decide (Int.tmod quot 5 = 0)) = true := by simpa using h0
          simp [c1]
        · have c1 : (decide (quot ≥ 0) && decide (Int.tmod quot 5 = 0)) = false := by
            have : ¬ quot ≥ 0 := by omega
            simp [this]
          have f1 : fitsI128 (quot + 1) = true := by rw [fitsI128_iff]; unfold I128_MIN I128_MAX at *; omega
          simp only [c1, Bool.false_eq_true, if_false, hneg, decide_true, if_true, plainI128_ok prof f1, Outcome.bind_ok,
            Outcome.pure_eq]
          simp [h5]
      · rw [if_neg c2]
        have h0 : ¬ (quot ≥ 0 ∧ quot.tmod 5 = 0) := fun h => c2 (Or.inl h)
        have c1 : (decide (quot ≥ 0) && decide (Int.tmod quot 5 = 0)) = false := by simpa using h0
        by_cases hneg : quot < 0
        · have h5 : ¬ (quot + 1).tmod 5 ≠ 0 := fun h => c2 (Or.inr ⟨hneg, h⟩)
          have f1 : fitsI128 (quot + 1) = true := by rw [fitsI128_iff]; unfold I128_MIN I128_MAX at *; omega
          simp only [c1, Bool.false_eq_true, if_false, hneg, decide_true, if_true, plainI128_ok prof f1, Outcome.bind_ok,
            Outcome.pure_eq]
          simp [h5]
        · simp [c1, hneg]
    · simp
    · by_cases h : quot < 0 <;> simp [h]
    · simp
    · rw [wrap_shl1]
      by_cases h : wrapU128 (rem <<< 1) > divisor ∨ (wrapU128 (rem <<< 1) = divisor ∧ quot < 0)
      · have : (decide (wrapU128 (rem <<< 1) > divisor) || (decide (wrapU128 (rem <<< 1) = divisor) && decide (quot < 0))) = true := by
          simpa using h
        simp [this, h]
      · have : (decide (wrapU128 (rem <<< 1) > divisor) || (decide (wrapU128 (rem <<< 1) = divisor) && decide (quot < 0))) = false := by
          simpa using h
        simp [this, h]
    · rw [wrap_shl1]
      by_cases h : wrapU128 (rem <<< 1) > divisor ∨ (wrapU128 (rem <<< 1) = divisor ∧ quot.tmod 2 ≠ 0)
      · have : (decide (wrapU128 (rem <<< 1) > divisor) || (decide (wrapU128 (rem <<< 1) = divisor) && decide (Int.tmod quot 2 ≠ 0))) = true := by
          simpa using h
        simp [this, h]
      · have : (decide (wrapU128 (rem <<< 1) > divisor) || (decide (wrapU128 (rem <<< 1) = divisor) && decide (Int.tmod quot 2 ≠ 0))) = false := by
          simpa using h
        simp [this, h]
    · rw [wrap_shl1]
      by_cases h : wrapU128 (rem <<< 1) > divisor ∨ (wrapU128 (rem <<< 1) = divisor ∧ quot ≥ 0)
      · have : (decide (wrapU128 (rem <<< 1) > divisor) || (decide (wrapU128 (rem <<< 1) = divisor) && decide (quot ≥ 0))) = true := by
          simpa using h
        simp [this, h]
      · have : (decide (wrapU128 (rem <<< 1) > divisor) || (decide (wrapU128 (rem <<< 1) = divisor) && decide (quot ≥ 0))) = false := by
          simpa using h
        simp [this, h]
    · by_cases h : quot ≥ 0 <;> simp [h]

theorem round_quot_eq (prof : Profile) (tm : Mode) (quot : Int) (rem divisor : Nat) (mode : Option Mode)
    (hq : fitsI128 quot = true) :
    Gen.K.round_quot prof tm quot rem divisor mode = .ok (roundQuot tm quot rem divisor mode) := by
  cases mode with
  | some md => exact round_quot_some prof tm quot rem divisor md hq
  | none =>
    have h1 : Gen.K.round_quot prof tm quot rem divisor none = Gen.K.round_quot prof tm quot rem divisor (some tm) := rfl
    have h2 : roundQuot tm quot rem divisor none = roundQuot tm quot rem divisor (some tm) := rfl
    rw [h1, h2]; exact round_quot_some prof tm quot rem divisor tm hq

end Fpdec.Kernels
