import Fpdec.Kernels.WideDiv
import Fpdec.Lemmas.WideCorrLoop
import Fpdec.Lemmas.WideMsb

/-! Tie: the generated translation of `u256_idiv_u128_special` (Knuth's algorithm D, 4 by 2 digits; its two quotient-digit
correction loops with `break`, translated to fuel-bounded recursion) equals the hand-written model (`corrLoop`, structural in the
quotient digit).  The fuel constant (2^128 + 1) exceeds every possible quotient digit estimate. -/

namespace Fpdec.Kernels
open Fpdec Fpdec.Model

/-- the loop condition as generated (lazy `||`) is the model's `corrCond` -/
theorem corr_cond_eq (prof : Profile) (yn0 xn q rhat : Nat) :
    ((if decide (q ≥ 18446744073709551616) = true then pure true else (do
        let t15 ← plainU128 prof ((q : Int) * yn0)
        let t16 ← plainU128 prof ((rhat : Int) * 18446744073709551616)
        let t17 ← plainU128 prof ((t16 : Int) + xn)
        pure (decide (t15 > t17))) : Outcome Bool)) = corrCond prof yn0 xn q rhat := by
  unfold corrCond U64_MOD
  by_cases h : q ≥ 18446744073709551616
  · simp only [h, decide_true, if_true]; rfl
  · simp only [h, decide_false, Bool.false_eq_true, if_false]
    rfl

/-- the condition can only hold for a non-zero quotient digit -/
theorem corrCond_true_pos (prof : Profile) (yn0 xn q rhat : Nat) (h : corrCond prof yn0 xn q rhat = .ok true) : q ≠ 0 := by
  intro hq
  subst hq
  unfold corrCond U64_MOD at h
  simp only [show ¬ (0 ≥ 18446744073709551616) by decide, if_false] at h
  have h0 : plainU128 prof (((0 : Nat) : Int) * (yn0 : Int)) = .ok 0 := by
    unfold plainU128; simp
  rw [h0] at h
  simp only [bind_ok'] at h
  obtain ⟨r1, _, h⟩ := bind_inv h
  obtain ⟨r, _, h⟩ := bind_inv h
  have := Outcome.ok.inj h
  simp at this

theorem plainU128_pred (prof : Profile) (q : Nat) (h : q < 340282366920938463463374607431768211456) :
    plainU128 prof (((q + 1 : Nat) : Int) - 1) = .ok q := by
  unfold plainU128
  have : 0 ≤ ((q + 1 : Nat) : Int) - 1 ∧ ((q + 1 : Nat) : Int) - 1 < 340282366920938463463374607431768211456 := by omega
  simp only [this, and_self, if_true]
  congr 1; omega

/-- the generated loop (both loops have the same text up to names) equals `corrLoop` whenever the fuel exceeds the digit -/
theorem corr_loop1_eq (prof : Profile) (yn1 yn0 xn : Nat) : ∀ (F q rhat : Nat), q < F → q ≤ 340282366920938463463374607431768211456 →
    Gen.K.u256_idiv_u128_special_k_loop1 prof yn1 yn0 xn F q rhat = corrLoop prof yn1 yn0 xn q rhat
  | 0, q, rhat, h, _ => absurd h (Nat.not_lt_zero _)
  | F + 1, q, rhat, h, hq => by
    unfold Gen.K.u256_idiv_u128_special_k_loop1
    rw [corr_cond_eq]
    cases q with
    | zero =>
      rw [Wide.corrLoop_zero prof yn1 yn0 xn rhat 0 rfl]
      cases hc : corrCond prof yn0 xn 0 rhat with
      | panic k => rfl
      | ok b =>
        cases b with
        | false => rfl
        | true => exact absurd rfl (corrCond_true_pos prof yn0 xn 0 rhat hc)
    | succ q' =>
      rw [Wide.corrLoop_succ prof yn1 yn0 xn (q' + 1) q' rhat rfl]
      cases hc : corrCond prof yn0 xn (q' + 1) rhat with
      | panic k => rfl
      | ok b =>
        cases b with
        | false => rfl
        | true =>
          have hpp := plainU128_pred prof q' (by omega)
          rw [bind_ok', if_pos rfl, hpp, bind_ok']
          cases plainU128 prof ((rhat : Int) + (yn1 : Int)) with
          | panic k => rfl
          | ok rhat' =>
            rw [bind_ok']
            show (if decide (rhat' ≥ 18446744073709551616) = true then _ else _) = (if rhat' ≥ U64_MOD then _ else _)
            by_cases hb : rhat' ≥ 18446744073709551616
            · rw [if_pos (decide_eq_true hb), if_pos (show rhat' ≥ U64_MOD from hb)]; rfl
            · rw [if_neg (by simpa using hb), if_neg (show ¬ rhat' ≥ U64_MOD from hb)]
              exact corr_loop1_eq prof yn1 yn0 xn F q' rhat' (by omega) (by omega)

theorem corr_loop2_eq (prof : Profile) (yn1 yn0 xn : Nat) : ∀ (F q rhat : Nat), q < F → q ≤ 340282366920938463463374607431768211456 →
    Gen.K.u256_idiv_u128_special_k_loop2 prof yn1 yn0 xn F q rhat = corrLoop prof yn1 yn0 xn q rhat
  | 0, q, rhat, h, _ => absurd h (Nat.not_lt_zero _)
  | F + 1, q, rhat, h, hq => by
    unfold Gen.K.u256_idiv_u128_special_k_loop2
    rw [corr_cond_eq]
    cases q with
    | zero =>
      rw [Wide.corrLoop_zero prof yn1 yn0 xn rhat 0 rfl]
      cases hc : corrCond prof yn0 xn 0 rhat with
      | panic k => rfl
      | ok b =>
        cases b with
        | false => rfl
        | true => exact absurd rfl (corrCond_true_pos prof yn0 xn 0 rhat hc)
    | succ q' =>
      rw [Wide.corrLoop_succ prof yn1 yn0 xn (q' + 1) q' rhat rfl]
      cases hc : corrCond prof yn0 xn (q' + 1) rhat with
      | panic k => rfl
      | ok b =>
        cases b with
        | false => rfl
        | true =>
          have hpp := plainU128_pred prof q' (by omega)
          rw [bind_ok', if_pos rfl, hpp, bind_ok']
          cases plainU128 prof ((rhat : Int) + (yn1 : Int)) with
          | panic k => rfl
          | ok rhat' =>
            rw [bind_ok']
            show (if decide (rhat' ≥ 18446744073709551616) = true then _ else _) = (if rhat' ≥ U64_MOD then _ else _)
            by_cases hb : rhat' ≥ 18446744073709551616
            · rw [if_pos (decide_eq_true hb), if_pos (show rhat' ≥ U64_MOD from hb)]; rfl
            · rw [if_neg (by simpa using hb), if_neg (show ¬ rhat' ≥ U64_MOD from hb)]
              exact corr_loop2_eq prof yn1 yn0 xn F q' rhat' (by omega) (by omega)

theorem shl128_small (prof : Profile) (x n : Nat) (h : n < 128) : Rt.shl 128 prof x n = .ok (wrapU128 (x <<< n)) := by
  unfold Rt.shl
  have : ¬ n ≥ 128 := by omega
  simp only [this, if_false]
  rfl

theorem shr128_small (prof : Profile) (x n : Nat) (h : n < 128) : Rt.shr 128 prof x n = .ok (x >>> n) := by
  unfold Rt.shr
  have : ¬ n ≥ 128 := by omega
  simp only [this, if_false]

theorem wrapU_wrapU (x : Nat) : Rt.wrapU 128 (Rt.wrapU 128 x) = wrapU128 x := by
  unfold Rt.wrapU wrapU128
  rw [Nat.mod_mod]

theorem wrapU128_lt (x : Nat) : wrapU128 x < 340282366920938463463374607431768211456 := by
  unfold wrapU128; exact Nat.mod_lt _ (by decide)

theorem u256_idiv_u128_special_eq (prof : Profile) (xh xl y : Nat) (hy0 : 0 < y)
    (hy : y < 340282366920938463463374607431768211456) (hxl : xl < 340282366920938463463374607431768211456) :
    Gen.K.u256_idiv_u128_special_k prof xh xl y = u256IdivU128Special prof xh xl y := by
  unfold Gen.K.u256_idiv_u128_special_k u256IdivU128Special
  refine bind_congr _ (fun _ => ?_)
  rw [u128_msb_eq prof y hy]
  obtain ⟨m, hm, hlo, hhi⟩ := Wide.u128Msb_spec prof y hy0 (by
    have : (2 : Nat) ^ 128 = 340282366920938463463374607431768211456 := by decide
    omega)
  rw [hm, bind_ok', bind_ok']
  have hm127 : m ≤ 127 := by
    by_contra hcon
    have : (2 : Nat) ^ 128 ≤ 2 ^ m := Nat.pow_le_pow_right (by decide) (by omega)
    have e : (2 : Nat) ^ 128 = 340282366920938463463374607431768211456 := by decide
    omega
  have hn : plainU8 prof ((127 : Int) - (m : Int)) = .ok (127 - m) := by
    by_cases hm' : m = 127
    · subst hm'; rfl
    · exact plainU8_sub prof 127 m (by decide) (by omega)
  rw [hn, bind_ok', bind_ok']
  simp only []
  generalize hnb : 127 - m = n
  have hn128 : n < 128 := by omega
  rw [shl128_small prof y n hn128, bind_ok', u128_hi_eq, bind_ok', u128_lo_eq, bind_ok']
  -- bits shifted from xl to xh
  have hsh : ((if decide (n = 0) = true then (do pure 0) else (do
        let t6 ← plainU8 prof ((128 : Int) - (n : Int))
        let t7 ← Rt.shr 128 prof xl t6
        pure t7) : Outcome Nat)) = .ok (if n = 0 then 0 else xl >>> (128 - n)) := by
    by_cases h0 : n = 0
    · simp [h0]
    · have h6 : plainU8 prof ((128 : Int) - (n : Int)) = .ok (128 - n) := plainU8_sub prof 128 n (by decide) (by omega)
      simp only [h0, decide_false, Bool.false_eq_true, if_false, h6, bind_ok', shr128_small prof xl (128 - n) (by omega), pure_eq']
  rw [hsh, bind_ok', shl128_small prof xh n hn128, bind_ok', shl128_small prof xl n hn128, bind_ok', u128_hi_eq, bind_ok',
    u128_lo_eq, bind_ok']
  generalize hyn : wrapU128 (y <<< n) = yn
  generalize hsv : (if n = 0 then 0 else xl >>> (128 - n)) = sh
  have hshlt : sh < 340282366920938463463374607431768211456 := by
    rw [← hsv]; split
    · decide
    · exact Nat.lt_of_le_of_lt (Nat.shiftRight_le _ _) hxl
  generalize hx32 : wrapU128 (xh <<< n) ||| sh = xn32
  have hx32lt : xn32 < 340282366920938463463374607431768211456 := by
    rw [← hx32]
    have e : (340282366920938463463374607431768211456 : Nat) = 2 ^ 128 := by decide
    rw [e]
    exact Nat.or_lt_two_pow (by rw [← e]; exact wrapU128_lt _) (by rw [← e]; exact hshlt)
  generalize hx10 : wrapU128 (xl <<< n) = xn10
  by_cases hyn1 : u128Hi yn = 0
  · rw [if_pos hyn1]
    unfold Rt.divU
    simp only [hyn1, if_true]
    rfl
  · rw [if_neg hyn1, divU_eq _ _ hyn1, bind_ok', remU_eq _ _ hyn1, bind_ok']
    have hq1 : xn32 / u128Hi yn ≤ 340282366920938463463374607431768211456 :=
      Nat.le_trans (Nat.div_le_self _ _) (Nat.le_of_lt hx32lt)
    rw [corr_loop1_eq prof (u128Hi yn) (u128Lo yn) (u128Hi xn10) 340282366920938463463374607431768211457 _ _ (by omega) hq1]
    refine bind_congr _ (fun qr1 => ?_)
    obtain ⟨q1, r1⟩ := qr1
    simp only []
    have ht : Rt.wrapU 128 (Rt.wrapU 128 (Rt.wrapU 128 (xn32 * 18446744073709551616) + u128Hi xn10) + 2 ^ 128 -
          Rt.wrapU 128 (Rt.wrapU 128 (q1 * yn))) =
        wrapU128 (wrapU128 (wrapU128 (xn32 * U64_MOD) + u128Hi xn10) + U128_MOD - wrapU128 (q1 * yn)) := by
      rw [wrapU_wrapU, wrapU_128, wrapU_128, wrapU_128]; rfl
    rw [ht]
    generalize htv : wrapU128 (wrapU128 (wrapU128 (xn32 * U64_MOD) + u128Hi xn10) + U128_MOD - wrapU128 (q1 * yn)) = t
    have htlt : t < 340282366920938463463374607431768211456 := by rw [← htv]; exact wrapU128_lt _
    rw [divU_eq _ _ hyn1, bind_ok', remU_eq _ _ hyn1, bind_ok']
    have hq0 : t / u128Hi yn ≤ 340282366920938463463374607431768211456 :=
      Nat.le_trans (Nat.div_le_self _ _) (Nat.le_of_lt htlt)
    rw [corr_loop2_eq prof (u128Hi yn) (u128Lo yn) (u128Lo xn10) 340282366920938463463374607431768211457 _ _ (by omega) hq0]
    refine bind_congr _ (fun qr0 => ?_)
    obtain ⟨q0, r0⟩ := qr0
    simp only []
    refine bind_congr _ (fun xl1 => ?_)
    refine bind_congr _ (fun xl2 => ?_)
    have hr : Rt.wrapU 128 (Rt.wrapU 128 (Rt.wrapU 128 (t * 18446744073709551616) + u128Lo xn10) + 2 ^ 128 -
          Rt.wrapU 128 (Rt.wrapU 128 (q0 * yn))) =
        wrapU128 (wrapU128 (wrapU128 (t * U64_MOD) + u128Lo xn10) + U128_MOD - wrapU128 (q0 * yn)) := by
      rw [wrapU_wrapU, wrapU_128, wrapU_128, wrapU_128]; rfl
    rw [hr, shr128_small prof _ n hn128, bind_ok']

end Fpdec.Kernels
