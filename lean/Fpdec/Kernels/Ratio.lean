import Fpdec.Gen.KRatio
import Fpdec.Kernels.Pow
import Fpdec.Model.Ratio
import Fpdec.Lemmas.RatioL

/-! Tie: the generated translations of `gcd_special` (src/as_integer_ratio.rs; Stein's loop on `i128` values, translated to
fuel-bounded recursion over `Int`) and of `Decimal::as_integer_ratio` / `numerator` / `denominator` equal the hand-written model
(which runs the loop on `Nat`), for every numerator other than `i128::MIN`. -/

namespace Fpdec.Kernels
open Fpdec Fpdec.Model

theorem tzI_nat (v : Nat) (h : v < 2 ^ 128) : Rt.tzI IntTy.i128 (v : Int) = trailingZeros 128 v := by
  unfold Rt.tzI
  have e : ((v : Int) % 2 ^ IntTy.i128.bits).toNat = v := by
    show ((v : Int) % 2 ^ 128).toNat = v
    have : (v : Int) % 2 ^ 128 = v := by
      have h' : (v : Int) < 2 ^ 128 := by exact_mod_cast h
      exact Int.emod_eq_of_lt (by omega) h'
    rw [this, Int.toNat_natCast]
  rw [e]; rfl

theorem trailingZeros_lt (v : Nat) (h0 : 0 < v) (h1 : v < 2 ^ 128) : trailingZeros 128 v < 128 := by
  obtain ⟨hd, _⟩ := trailingZeros_spec v h0 h1
  have hle : 2 ^ trailingZeros 128 v ≤ v := Nat.le_of_dvd h0 hd
  have : 2 ^ trailingZeros 128 v < 2 ^ 128 := Nat.lt_of_le_of_lt hle h1
  exact (Nat.pow_lt_pow_iff_right (by decide)).1 this

theorem shrI_nat (prof : Profile) (v n : Nat) (hn : n < 128) :
    Rt.shrI IntTy.i128 prof (v : Int) n = .ok ((v >>> n : Nat) : Int) := by
  unfold Rt.shrI
  have : ¬ (n ≥ IntTy.i128.bits) := by show ¬ (n ≥ 128); omega
  rw [if_neg this, Int.shiftRight_eq_div_pow, Nat.shiftRight_eq_div_pow]
  congr 1

theorem shr_pos (v : Nat) (h0 : 0 < v) (h1 : v < 2 ^ 128) : 0 < v >>> trailingZeros 128 v := by
  obtain ⟨_, ho⟩ := trailingZeros_spec v h0 h1
  generalize v >>> trailingZeros 128 v = w at ho
  omega

theorem plainI128_nat_sub (prof : Profile) (a b : Nat) (h : b ≤ a) (ha : a < 2 ^ 127) :
    plainI128 prof ((a : Int) - (b : Int)) = .ok ((a - b : Nat) : Int) := by
  have e : ((a : Int) - (b : Int)) = ((a - b : Nat) : Int) := by omega
  rw [e]
  apply plainI128_ok
  rw [fitsI128_iff]; unfold I128_MIN I128_MAX
  have : (2 : Nat) ^ 127 = 170141183460469231731687303715884105728 := by decide
  omega

theorem gcd_loop_eq (prof : Profile) : ∀ (F u v : Nat), 0 < u → u < 2 ^ 127 → v < 2 ^ 127 →
    Gen.K.gcd_special_loop1 prof F (v : Int) (u : Int) =
      (match gcdLoop F u v with | none => .panic .other | some g => .ok ((0 : Int), (g : Int)))
  | 0, u, v, _, _, _ => rfl
  | F + 1, u, v, hu, hub, hvb => by
    unfold Gen.K.gcd_special_loop1 gcdLoop
    have p127 : (2 : Nat) ^ 127 = 170141183460469231731687303715884105728 := by decide
    have p128 : (2 : Nat) ^ 128 = 340282366920938463463374607431768211456 := by decide
    by_cases hv : v = 0
    · subst hv; simp [pure_eq']
    · have hv0 : 0 < v := Nat.pos_of_ne_zero hv
      have hvI : ((v : Int) ≠ 0) := by omega
      have hv128 : v < 2 ^ 128 := by omega
      simp only [hvI, ne_eq, not_false_eq_true, decide_true, if_true, hv, if_false]
      rw [tzI_nat v hv128, shrI_nat prof v _ (trailingZeros_lt v hv0 hv128)]
      simp only [bind_ok']
      have hv'pos := shr_pos v hv0 hv128
      have hv'le : v >>> trailingZeros 128 v ≤ v := by rw [Nat.shiftRight_eq_div_pow]; exact Nat.div_le_self _ _
      generalize v >>> trailingZeros 128 v = v' at *
      by_cases hc : u > v'
      · have hcI : ((u : Int) > (v' : Int)) := by omega
        simp only [hcI, decide_true, if_true, bind_ok', pure_eq', hc]
        rw [plainI128_nat_sub prof u v' (by omega) hub]
        simp only [bind_ok']
        exact gcd_loop_eq prof F v' (u - v') hv'pos (by omega) (by omega)
      · have hcI : ¬ ((u : Int) > (v' : Int)) := by omega
        simp only [hcI, decide_false, Bool.false_eq_true, if_false, bind_ok', pure_eq', hc]
        rw [plainI128_nat_sub prof v' u (by omega) (by omega)]
        simp only [bind_ok']
        exact gcd_loop_eq prof F u (v' - u) hu hub (by omega)

theorem shlI_small (prof : Profile) (x : Int) (n : Nat) (hn : n < 128) :
    Rt.shlI IntTy.i128 prof x n = .ok (IntTy.i128.cast (x * 2 ^ n)) := by
  unfold Rt.shlI
  have : ¬ (n ≥ IntTy.i128.bits) := by show ¬ (n ≥ 128); omega
  rw [if_neg this]

/-- `gcd_special` as translated = the model, for every numerator except `i128::MIN` (any `denom_exp`, any profile) -/
theorem gcd_special_eq (prof : Profile) (numer : Int) (e : Nat) (hn : I128_MIN < numer ∧ numer ≤ I128_MAX) :
    Gen.K.gcd_special prof numer e = gcdSpecial prof numer e := by
  obtain ⟨hn1, hn2⟩ := hn
  unfold I128_MIN at hn1; unfold I128_MAX at hn2
  have p127 : (2 : Nat) ^ 127 = 170141183460469231731687303715884105728 := by decide
  have p128 : (2 : Nat) ^ 128 = 340282366920938463463374607431768211456 := by decide
  unfold Gen.K.gcd_special gcdSpecial
  by_cases hn0 : numer = 0
  · subst hn0; rfl
  have a1 : assert (decide (numer ≠ 0)) = .ok () := by simp [assert, hn0]
  rw [a1]; simp only [bind_ok']
  by_cases he : e ≤ 38
  swap
  · have a2 : assert (decide (e ≤ 38)) = .panic .assert := by simp [assert, he]
    rw [a2]; rfl
  have a2 : assert (decide (e ≤ 38)) = .ok () := by simp [assert, he]
  rw [a2]; simp only [bind_ok']
  have habs : (if numer < 0 then -numer else numer) = (numer.natAbs : Int) := by split <;> omega
  have hfit : fitsI128 (numer.natAbs : Int) = true := by rw [fitsI128_iff]; unfold I128_MIN I128_MAX; omega
  rw [habs, plainI128_ok prof hfit]
  simp only [bind_ok', Int.toNat_natCast]
  have hupos : 0 < numer.natAbs := by omega
  have hult : numer.natAbs < 2 ^ 127 := by omega
  generalize numer.natAbs = u at *
  have hu128 : u < 2 ^ 128 := by omega
  have htz := trailingZeros_lt u hupos hu128
  rw [tzI_nat u hu128, shrI_nat prof u _ htz]
  simp only [bind_ok']
  have hw : Rt.wrapU 8 e = e % 256 := rfl
  have he256 : e % 256 = e := by omega
  rw [hw, he256, ten_pow_eq, tenPow_ok e he]
  simp only [bind_ok']
  have hten : ((10 : Int) ^ e) = ((10 ^ e : Nat) : Int) := by push_cast; rfl
  rw [hten, shrI_nat prof _ e (by omega), Int.toNat_natCast]
  simp only [bind_ok']
  have hu'pos := shr_pos u hupos hu128
  have hu'le : u >>> trailingZeros 128 u ≤ u := by rw [Nat.shiftRight_eq_div_pow]; exact Nat.div_le_self _ _
  have hvle : (10 ^ e) >>> e ≤ 10 ^ 38 := by
    rw [Nat.shiftRight_eq_div_pow]
    exact Nat.le_trans (Nat.div_le_self _ _) (Nat.pow_le_pow_right (by decide) he)
  have hvlt : (10 ^ e) >>> e < 2 ^ 127 := Nat.lt_of_le_of_lt hvle (by decide)
  generalize trailingZeros 128 u = tz at *
  generalize u >>> tz = u' at *
  generalize (10 ^ e) >>> e = v at *
  rw [gcd_loop_eq prof 600 u' v hu'pos (by omega) hvlt]
  cases gcdLoop 600 u' v with
  | none => rfl
  | some g =>
    simp only [bind_ok']
    have hmin : min tz e < 128 := by omega
    rw [shlI_small prof _ _ hmin]
    simp only [bind_ok', pure_eq']
    congr 2
    rw [Nat.shiftLeft_eq]; push_cast; rfl

theorem ratio_cond (d : Dec) : (decide (d.nfrac = 0) || decide (d.coeff = 0)) = true ↔ (d.nfrac = 0 ∨ d.coeff = 0) := by simp

theorem decimal_as_integer_ratio_eq (prof : Profile) (d : Dec) (hc : I128_MIN < d.coeff ∧ d.coeff ≤ I128_MAX) :
    Gen.K.decimal_as_integer_ratio prof d = asIntegerRatio prof d := by
  unfold Gen.K.decimal_as_integer_ratio asIntegerRatio
  by_cases h : d.nfrac = 0 ∨ d.coeff = 0
  · rw [if_pos ((ratio_cond d).2 h), if_pos h]; rfl
  · rw [if_neg (fun h' => h ((ratio_cond d).1 h')), if_neg h, gcd_special_eq prof _ _ hc]
    apply bind_congr; intro g
    apply bind_congr; intro n
    rw [ten_pow_eq]

theorem decimal_numerator_eq (prof : Profile) (d : Dec) (hc : I128_MIN < d.coeff ∧ d.coeff ≤ I128_MAX) :
    Gen.K.decimal_numerator prof d = numerator prof d := by
  unfold Gen.K.decimal_numerator numerator
  by_cases h : d.nfrac = 0 ∨ d.coeff = 0
  · rw [if_pos ((ratio_cond d).2 h), if_pos h]; rfl
  · rw [if_neg (fun h' => h ((ratio_cond d).1 h')), if_neg h, gcd_special_eq prof _ _ hc]

theorem decimal_denominator_eq (prof : Profile) (d : Dec) (hc : I128_MIN < d.coeff ∧ d.coeff ≤ I128_MAX) :
    Gen.K.decimal_denominator prof d = denominator prof d := by
  unfold Gen.K.decimal_denominator denominator
  by_cases h : d.nfrac = 0 ∨ d.coeff = 0
  · rw [if_pos ((ratio_cond d).2 h), if_pos h]; rfl
  · rw [if_neg (fun h' => h ((ratio_cond d).1 h')), if_neg h, gcd_special_eq prof _ _ hc]
    apply bind_congr; intro g
    rw [ten_pow_eq]

end Fpdec.Kernels
