import Fpdec.Gen.KDecRound
import Fpdec.Kernels.WideFits
import Fpdec.Model.Decimal

/-! Tie: the generated translations of `impl Round for Decimal` (`round`, `checked_round`; src/round.rs) equal the model. -/

namespace Fpdec.Kernels
open Fpdec Fpdec.Model

theorem sign_fits (x : Int) : fitsI128 (Int.sign x) = true := by
  rw [fitsI128_iff]; unfold I128_MIN I128_MAX
  rcases Int.lt_trichotomy x 0 with h | h | h
  · rw [Int.sign_eq_neg_one_of_neg h]; omega
  · rw [h]; simp
  · rw [Int.sign_eq_one_of_pos h]; omega

theorem decimal_checked_round_eq (prof : Profile) (tm : Mode) (d : Dec) (n : Int) (hd : fitsI128 d.coeff = true) :
    Gen.K.decimal_checked_round prof tm d n = checkedRound prof tm d n := by
  unfold Gen.K.decimal_checked_round checkedRound roundCore Gen.ROUND_MAX_SHIFT Gen.ROUND_SIGNUM_DIVISOR
  simp only []
  by_cases h1 : n ≥ IntTy.i8.cast ((d.nfrac : Nat) : Int)
  · simp only [h1, decide_true, if_true]
  · simp only [h1, decide_false, Bool.false_eq_true, if_false]
    refine bind_congr _ (fun lim => ?_)
    by_cases h2 : n < lim
    · simp only [h2, decide_true, if_true, i128_div_rounded_eq prof tm _ 3 none (sign_fits d.coeff)]
      refine bind_congr _ (fun c => ?_)
      by_cases h3 : c = 0
      · simp only [h3, decide_true, if_true]
      · simp only [h3, decide_false, Bool.false_eq_true, if_false, checked_mul_pow_ten_eq, bind_ok']
        cases checkedMulPowTen c n.natAbs <;> rfl
    · simp only [h2, decide_false, Bool.false_eq_true, if_false]
      refine bind_congr _ (fun sh => ?_)
      rw [ten_pow_eq]
      refine bind_congr _ (fun divisor => ?_)
      rw [i128_div_rounded_eq prof tm d.coeff divisor none hd]
      refine bind_congr _ (fun c => ?_)
      by_cases h4 : n ≥ 0
      · simp only [h4, decide_true, if_true]
      · simp only [h4, decide_false, Bool.false_eq_true, if_false]
        refine bind_congr _ (fun m => ?_)
        rw [ten_pow_eq]
        refine bind_congr _ (fun t => ?_)
        cases checkedI128 (c * t) <;> rfl

theorem decimal_round_eq (prof : Profile) (tm : Mode) (d : Dec) (n : Int) (hd : fitsI128 d.coeff = true) :
    Gen.K.decimal_round prof tm d n = round prof tm d n := by
  unfold Gen.K.decimal_round round roundCore Gen.ROUND_MAX_SHIFT Gen.ROUND_SIGNUM_DIVISOR
  simp only []
  by_cases h1 : n ≥ IntTy.i8.cast ((d.nfrac : Nat) : Int)
  · simp only [h1, decide_true, if_true]; rfl
  · simp only [h1, decide_false, Bool.false_eq_true, if_false, bind_assoc']
    refine bind_congr _ (fun lim => ?_)
    by_cases h2 : n < lim
    · simp only [h2, decide_true, if_true, i128_div_rounded_eq prof tm _ 3 none (sign_fits d.coeff), bind_assoc']
      refine bind_congr _ (fun c => ?_)
      by_cases h3 : c = 0
      · simp only [h3, decide_true, if_true]; rfl
      · simp only [h3, decide_false, Bool.false_eq_true, if_false, checked_mul_pow_ten_eq, bind_ok']
        cases checkedMulPowTen c n.natAbs <;> rfl
    · simp only [h2, decide_false, Bool.false_eq_true, if_false, bind_assoc']
      refine bind_congr _ (fun sh => ?_)
      rw [ten_pow_eq]
      refine bind_congr _ (fun divisor => ?_)
      rw [i128_div_rounded_eq prof tm d.coeff divisor none hd]
      refine bind_congr _ (fun c => ?_)
      by_cases h4 : n ≥ 0
      · simp only [h4, decide_true, if_true]; rfl
      · simp only [h4, decide_false, Bool.false_eq_true, if_false, bind_assoc']
        refine bind_congr _ (fun m => ?_)
        rw [ten_pow_eq]
        refine bind_congr _ (fun t => ?_)
        cases checkedI128 (c * t) <;> rfl

end Fpdec.Kernels
