import Fpdec.Kernels.FloatDecode
import Fpdec.Kernels.Float
import Fpdec.Lemmas.FromFloatTail

/-! Tie: the generated translations of `impl TryFrom<f32> for Decimal` and `impl TryFrom<f64> for Decimal` (src/from_float.rs)
equal the hand-written model `tryFromFloat` (errors mapped onto `DecimalError`).  With `f64_decode`, `f32_decode`, `approx_rational`
and `normalize` this covers every function of the file. -/

namespace Fpdec.Kernels
open Fpdec Fpdec.Model

/-- the model's error type seen as `fpdec::DecimalError` -/
def floatResult : Except FloatErr Dec → Except Rt.DecimalError Dec
  | .ok d => .ok d
  | .error .infinite => .error .infiniteValue
  | .error .nan => .error .notANumber
  | .error .overflow => .error .internalOverflow

theorem usize_cast_small (x : Int) (h0 : 0 ≤ x) (h1 : x < 18446744073709551616) : IntTy.usize.cast x = x := by
  unfold IntTy.cast IntTy.wrap IntTy.usize
  simp only [Bool.false_eq_true, if_false]
  have e2 : (2 : Int) ^ 64 = 18446744073709551616 := by decide
  rw [e2]; omega

theorem shlI_small (prof : Profile) (x : Int) (n : Nat) (h : n < 128) :
    Rt.shlI IntTy.i128 prof x n = .ok (IntTy.i128.cast (x * 2 ^ n)) := by
  unfold Rt.shlI
  have : ¬ n ≥ IntTy.i128.bits := by unfold IntTy.i128; simp; omega
  simp only [this, if_false]

/-- the code after the decode step, negative exponent -/
theorem tail_frac_eq (prof : Profile) (is64 : Prop) [Decidable is64] (s : Nat) (e sg : Int)
    (h1 : ¬ e < -126) (h2 : e < 0) :
    (do let t2 ← plainI128 prof (sg * ((s : Nat) : Int))
        let t3 ← IntTy.i16.plain prof (-e)
        let t4 ← Rt.shlI IntTy.i128 prof 1 ((IntTy.usize.cast t3).toNat)
        let t5 ← Gen.K.approx_rational prof t2 t4
        let (coeff, n_frac_digits) := t5
        pure (Except.ok (⟨coeff, n_frac_digits⟩ : Dec)) : Outcome (Except Rt.DecimalError Dec)) =
      floatResult <$> fromFloatTail prof is64 s e sg := by
  unfold fromFloatTail
  have h1' : ¬ e < Gen.FROM_FLT_MIN_EXP := by unfold Gen.FROM_FLT_MIN_EXP; exact h1
  rw [if_neg h1', if_pos h2]
  have p3 : IntTy.i16.plain prof (-e) = .ok (-e) := i16_plain_ok prof _ (by omega) (by omega)
  have hu : IntTy.usize.cast (-e) = -e := usize_cast_small _ (by omega) (by omega)
  have hsh : Rt.shlI IntTy.i128 prof 1 (-e).toNat = .ok (IntTy.i128.cast (1 * 2 ^ (-e).toNat)) :=
    shlI_small prof 1 _ (by omega)
  cases plainI128 prof (sg * (s : Int)) with
  | panic k => rfl
  | ok numer =>
    simp only [bind_ok', p3, hu, hsh, Int.one_mul, approx_rational_eq]
    cases approxRational prof numer (IntTy.i128.cast (2 ^ (-e).toNat)) with
    | panic k => rfl
    | ok cn => rfl

/-- the code after the decode step, non-negative exponent below 128 -/
theorem tail_int_eq' (prof : Profile) (is64 : Prop) [Decidable is64] (s : Nat) (e sg : Int)
    (h2 : 0 ≤ e) (h3 : e < 128) :
    (do let t6 ← plainI128 prof (sg * ((s : Nat) : Int))
        let t7 ← Rt.shlI IntTy.i128 prof 1 ((IntTy.usize.cast e).toNat)
        match checkedI128 (t6 * t7) with
        | some coeff => pure (Except.ok (⟨coeff, 0⟩ : Dec))
        | none => pure (Except.error Rt.DecimalError.internalOverflow) : Outcome (Except Rt.DecimalError Dec)) =
      floatResult <$> fromFloatTail prof is64 s e sg := by
  unfold fromFloatTail
  have h1' : ¬ e < Gen.FROM_FLT_MIN_EXP := by unfold Gen.FROM_FLT_MIN_EXP; omega
  have h2' : ¬ e < 0 := by omega
  have hc : ¬ (is64 ∧ e ≥ 128) := by intro h; omega
  rw [if_neg h1', if_neg h2', if_neg hc]
  have hu : IntTy.usize.cast e = e := usize_cast_small _ h2 (by omega)
  have hsh : Rt.shlI IntTy.i128 prof 1 e.toNat = .ok (IntTy.i128.cast (1 * 2 ^ e.toNat)) := shlI_small prof 1 _ (by omega)
  have hk : ¬ e.toNat ≥ 128 := by omega
  have hmod : e.toNat % 128 = e.toNat := Nat.mod_eq_of_lt (by omega)
  cases plainI128 prof (sg * (s : Int)) with
  | panic k => rfl
  | ok numer =>
    simp only [bind_ok', hu, hsh, Int.one_mul]
    rw [if_neg hk]
    simp only [pure_eq', bind_ok', hmod]
    cases checkedI128 (numer * IntTy.i128.cast (2 ^ e.toNat)) <;> rfl

theorem tail_zero_eq (prof : Profile) (is64 : Prop) [Decidable is64] (s : Nat) (e sg : Int) (h : e < -126) :
    (.ok (Except.ok Dec.ZERO) : Outcome (Except Rt.DecimalError Dec)) = floatResult <$> fromFloatTail prof is64 s e sg := by
  unfold fromFloatTail
  have h' : e < Gen.FROM_FLT_MIN_EXP := by unfold Gen.FROM_FLT_MIN_EXP; exact h
  rw [if_pos h']
  rfl

theorem tail_ovf_eq (prof : Profile) (s : Nat) (e sg : Int) (h : e ≥ 128) :
    (.ok (Except.error Rt.DecimalError.internalOverflow) : Outcome (Except Rt.DecimalError Dec)) =
      floatResult <$> fromFloatTail prof True s e sg := by
  unfold fromFloatTail
  have h1 : ¬ e < Gen.FROM_FLT_MIN_EXP := by unfold Gen.FROM_FLT_MIN_EXP; omega
  have h2 : ¬ e < 0 := by omega
  rw [if_neg h1, if_neg h2, if_pos ⟨trivial, h⟩]
  rfl

theorem try_from_f64_eq (prof : Profile) (bits : Nat) (hb : bits < 18446744073709551616) :
    Gen.K.try_from_f64 prof bits = floatResult <$> tryFromFloat prof Spec.FloatFmt.f64 bits := by
  rw [tryFromFloat_eq]
  unfold Gen.K.try_from_f64
  have hfb : Spec.FloatFmt.f64.fracBits = 52 := rfl
  have heb : Spec.FloatFmt.f64.expBits = 11 := rfl
  simp only [hfb, heb]
  have e1 : bits >>> 52 = bits / 4503599627370496 := by rw [Nat.shiftRight_eq_div_pow]
  have e2 : ∀ x : Nat, x &&& (2 ^ 11 - 1) = x % 2048 := fun x => Nat.and_two_pow_sub_one_eq_mod x 11
  have e3 : bits &&& (2 ^ 52 - 1) = bits % 4503599627370496 := Nat.and_two_pow_sub_one_eq_mod bits 52
  have e4 : (2 : Nat) ^ 11 - 1 = 2047 := by decide
  rw [e1, e2, e3, e4]
  have p63 : (2 : Nat) ^ 63 = 9223372036854775808 := by decide
  unfold Rt.f64_is_infinite Rt.f64_is_nan
  rw [p63]
  by_cases hbe : bits / 4503599627370496 % 2048 = 2047
  · by_cases hfr : bits % 4503599627370496 = 0
    · have hi : (bits % 9223372036854775808 == 0x7ff0000000000000) = true := by
        simp only [beq_iff_eq]; omega
      simp only [hi, if_true, hbe, hfr, and_self]
      rfl
    · have hi : (bits % 9223372036854775808 == 0x7ff0000000000000) = false := by
        simp only [beq_eq_false_iff_ne, ne_eq]; omega
      have hn : decide (bits % 9223372036854775808 > 0x7ff0000000000000) = true := by
        simp only [decide_eq_true_eq]; omega
      simp only [hi, hn, Bool.false_eq_true, if_false, if_true, hbe, hfr, and_false, pure_eq']
      rfl
  · have hi : (bits % 9223372036854775808 == 0x7ff0000000000000) = false := by
      simp only [beq_eq_false_iff_ne, ne_eq]; omega
    have hn : decide (bits % 9223372036854775808 > 0x7ff0000000000000) = false := by
      simp only [decide_eq_false_iff_not]; omega
    simp only [hi, hn, Bool.false_eq_true, if_false, hbe, false_and]
    rw [f64_decode_eq prof bits hb, floatDecode_f64 bits hb hbe]
    simp only [bind_ok']
    have hbnd : ∀ d : Nat × Int × Int,
        d = (if bits / 4503599627370496 % 2048 = 0 then (0, 0, 0)
              else (bits % 4503599627370496 + 4503599627370496, ((bits / 4503599627370496 % 2048 : Nat) : Int) - 1075,
                    1 - 2 * ((bits / 9223372036854775808 : Nat) : Int))) → -1075 ≤ d.2.1 ∧ d.2.1 ≤ 971 := by
      intro d hd
      by_cases h0 : bits / 4503599627370496 % 2048 = 0
      · rw [if_pos h0] at hd; rw [hd]; simp
      · rw [if_neg h0] at hd; rw [hd]; simp only []; omega
    generalize hd : (if bits / 4503599627370496 % 2048 = 0 then ((0 : Nat), (0 : Int), (0 : Int))
              else (bits % 4503599627370496 + 4503599627370496, ((bits / 4503599627370496 % 2048 : Nat) : Int) - 1075,
                    1 - 2 * ((bits / 9223372036854775808 : Nat) : Int))) = d
    have hb2 := hbnd d hd.symm
    obtain ⟨s, e, sg⟩ := d
    simp only [] at hb2 ⊢
    have h128 : IntTy.i16.cast (((128 : Nat) : Nat) : Int) = 128 := i16_cast_small 128 (by decide) (by decide)
    by_cases c1 : e < -126
    · simp only [c1, decide_true, if_true, pure_eq']
      exact tail_zero_eq prof _ s e sg c1
    · by_cases c2 : e < 0
      · simp only [c1, c2, decide_true, decide_false, Bool.false_eq_true, if_true, if_false]
        exact tail_frac_eq prof _ s e sg c1 c2
      · by_cases c3 : e ≥ 128
        · simp only [c1, c2, h128, c3, decide_true, decide_false, Bool.false_eq_true, if_true, if_false, pure_eq']
          exact tail_ovf_eq prof s e sg c3
        · simp only [c1, c2, h128, c3, decide_false, Bool.false_eq_true, if_false]
          exact tail_int_eq' prof _ s e sg (by omega) (by omega)

theorem try_from_f32_eq (prof : Profile) (bits : Nat) (hb : bits < 4294967296) :
    Gen.K.try_from_f32 prof bits = floatResult <$> tryFromFloat prof Spec.FloatFmt.f32 bits := by
  rw [tryFromFloat_eq]
  unfold Gen.K.try_from_f32
  have hfb : Spec.FloatFmt.f32.fracBits = 23 := rfl
  have heb : Spec.FloatFmt.f32.expBits = 8 := rfl
  simp only [hfb, heb]
  have e1 : bits >>> 23 = bits / 8388608 := by rw [Nat.shiftRight_eq_div_pow]
  have e2 : ∀ x : Nat, x &&& (2 ^ 8 - 1) = x % 256 := fun x => Nat.and_two_pow_sub_one_eq_mod x 8
  have e3 : bits &&& (2 ^ 23 - 1) = bits % 8388608 := Nat.and_two_pow_sub_one_eq_mod bits 23
  have e4 : (2 : Nat) ^ 8 - 1 = 255 := by decide
  rw [e1, e2, e3, e4]
  have p31 : (2 : Nat) ^ 31 = 2147483648 := by decide
  unfold Rt.f32_is_infinite Rt.f32_is_nan
  rw [p31]
  by_cases hbe : bits / 8388608 % 256 = 255
  · by_cases hfr : bits % 8388608 = 0
    · have hi : (bits % 2147483648 == 0x7f800000) = true := by
        simp only [beq_iff_eq]; omega
      simp only [hi, if_true, hbe, hfr, and_self]
      rfl
    · have hi : (bits % 2147483648 == 0x7f800000) = false := by
        simp only [beq_eq_false_iff_ne, ne_eq]; omega
      have hn : decide (bits % 2147483648 > 0x7f800000) = true := by
        simp only [decide_eq_true_eq]; omega
      simp only [hi, hn, Bool.false_eq_true, if_false, if_true, hbe, hfr, and_false, pure_eq']
      rfl
  · have hi : (bits % 2147483648 == 0x7f800000) = false := by
      simp only [beq_eq_false_iff_ne, ne_eq]; omega
    have hn : decide (bits % 2147483648 > 0x7f800000) = false := by
      simp only [decide_eq_false_iff_not]; omega
    simp only [hi, hn, Bool.false_eq_true, if_false, hbe, false_and]
    rw [f32_decode_eq prof bits hb, floatDecode_f32 bits hb hbe]
    simp only [bind_ok']
    have hbnd : ∀ d : Nat × Int × Int,
        d = (if bits / 8388608 % 256 = 0 then (0, 0, 0)
              else (bits % 8388608 + 8388608, ((bits / 8388608 % 256 : Nat) : Int) - 150,
                    1 - 2 * ((bits / 2147483648 : Nat) : Int))) → -150 ≤ d.2.1 ∧ d.2.1 ≤ 104 := by
      intro d hd
      by_cases h0 : bits / 8388608 % 256 = 0
      · rw [if_pos h0] at hd; rw [hd]; simp
      · rw [if_neg h0] at hd; rw [hd]; simp only []; omega
    generalize hd : (if bits / 8388608 % 256 = 0 then ((0 : Nat), (0 : Int), (0 : Int))
              else (bits % 8388608 + 8388608, ((bits / 8388608 % 256 : Nat) : Int) - 150,
                    1 - 2 * ((bits / 2147483648 : Nat) : Int))) = d
    have hb2 := hbnd d hd.symm
    obtain ⟨s, e, sg⟩ := d
    simp only [] at hb2 ⊢
    by_cases c1 : e < -126
    · simp only [c1, decide_true, if_true, pure_eq']
      exact tail_zero_eq prof _ s e sg c1
    · by_cases c2 : e < 0
      · simp only [c1, c2, decide_true, decide_false, Bool.false_eq_true, if_true, if_false]
        exact tail_frac_eq prof _ s e sg c1 c2
      · simp only [c1, c2, decide_false, Bool.false_eq_true, if_false]
        exact tail_int_eq' prof _ s e sg (by omega) (by omega)

end Fpdec.Kernels
