import Fpdec.Gen.KFromStr
import Fpdec.Kernels.Pow
import Fpdec.Model.Parser

/-! Tie: the generated translation of `impl FromStr for Decimal` (src/from_str.rs: everything after the call of the parser
`str_to_dec`, which is referred to through the model) equals the hand-written model `fromStr`. -/

namespace Fpdec.Kernels
open Fpdec Fpdec.Model

theorem isize_cast_small (x : Int) (h0 : 0 ≤ x) (h1 : x < 9223372036854775808) : IntTy.isize.cast x = x := by
  unfold IntTy.cast IntTy.wrap IntTy.isize
  simp only [if_true]
  have e1 : (2 : Int) ^ (64 - 1) = 9223372036854775808 := by decide
  have e2 : (2 : Int) ^ 64 = 18446744073709551616 := by decide
  rw [e1, e2]; omega

theorem decimal_from_str_eq (prof : Profile) (lit : List Nat) :
    Gen.K.decimal_from_str prof lit = fromStr prof lit := by
  unfold Gen.K.decimal_from_str fromStr
  cases strToDec prof lit with
  | panic k => rfl
  | ok r =>
    cases r with
    | error e => rfl
    | ok ce =>
      obtain ⟨coeff, exponent⟩ := ce
      simp only [bind_ok']
      have hc : IntTy.isize.cast (((Gen.MAX_N_FRAC_DIGITS : Nat)) : Int) = ((Gen.MAX_N_FRAC_DIGITS : Nat) : Int) :=
        isize_cast_small _ (by decide) (by decide)
      rw [hc]
      cases hn : IntTy.isize.plain prof (-exponent) with
      | panic k => rfl
      | ok nexp =>
        simp only [bind_ok']
        by_cases h1 : nexp > ((Gen.MAX_N_FRAC_DIGITS : Nat) : Int)
        · simp only [h1, decide_true, if_true, pure_eq']
        · simp only [h1, decide_false, Bool.false_eq_true, if_false]
          have e38 : ((Gen.FROM_STR_MAX_EXP : Nat) : Int) = 38 := rfl
          rw [e38]
          by_cases h2 : exponent > 38
          · simp only [h2, decide_true, if_true]
            by_cases h3 : coeff = 0
            · simp only [h3, decide_true, if_true, pure_eq']
            · simp only [h3, decide_false, Bool.false_eq_true, if_false, pure_eq']
          · simp only [h2, decide_false, Bool.false_eq_true, if_false]
            by_cases h4 : exponent < 0
            · simp only [h4, decide_true, if_true, bind_ok', pure_eq']
            · simp only [h4, decide_false, Bool.false_eq_true, if_false, checked_mul_pow_ten_eq, bind_ok']
              cases checkedMulPowTen coeff (IntTy.u8.cast exponent).toNat <;> rfl

end Fpdec.Kernels

namespace Fpdec.Kernels
open Fpdec Fpdec.Model

theorem u32_cast_small (x : Int) (h0 : 0 ≤ x) (h1 : x < 4294967296) : IntTy.u32.cast x = x := by
  unfold IntTy.cast IntTy.wrap IntTy.u32
  simp only [Bool.false_eq_true, if_false]
  have e2 : (2 : Int) ^ 32 = 4294967296 := by decide
  rw [e2]; omega

/-- the `Dec!` proc macro as a function of the literal text (after `TokenStream::to_string` and the sign-blank fix-up; a panic of
    the macro = the literal does not compile = `Err`): equal to the model's `macroFold` -/
theorem dec_fold_eq (prof : Profile) (src : List Nat) :
    Gen.K.dec_fold prof (macroStripBlank src) =
      (fun r => r.map (fun d : Dec => (d.coeff, d.nfrac))) <$> macroFold prof src := by
  unfold Gen.K.dec_fold macroFold
  cases strToDec prof (macroStripBlank src) with
  | panic k => rfl
  | ok r =>
    cases r with
    | error e => rfl
    | ok ce =>
      obtain ⟨coeff, exponent⟩ := ce
      simp only [bind_ok']
      have hc : IntTy.isize.cast (((Gen.MAX_N_FRAC_DIGITS : Nat)) : Int) = ((Gen.MAX_N_FRAC_DIGITS : Nat) : Int) :=
        isize_cast_small _ (by decide) (by decide)
      rw [hc]
      cases hn : IntTy.isize.plain prof (-exponent) with
      | panic k => rfl
      | ok nexp =>
        simp only [bind_ok']
        by_cases h1 : nexp > ((Gen.MAX_N_FRAC_DIGITS : Nat) : Int)
        · simp only [h1, decide_true, if_true, pure_eq']; rfl
        · simp only [h1, decide_false, Bool.false_eq_true, if_false]
          have e38 : ((Gen.FROM_STR_MAX_EXP : Nat) : Int) = 38 := rfl
          rw [e38]
          have hz : IntTy.isize.plain prof (-(0 : Int)) = .ok 0 := by
            unfold IntTy.plain IntTy.fits IntTy.min IntTy.max IntTy.isize; rfl
          by_cases h2 : exponent > 38
          · simp only [h2, decide_true, if_true]
            by_cases h3 : coeff ≠ 0
            · simp only [h3, ne_eq, not_false_eq_true, decide_true, if_true, pure_eq']; rfl
            · have h3' : coeff = 0 := by simpa using h3
              subst h3'
              simp only [ne_eq, not_true_eq_false, decide_false, Bool.false_eq_true, if_false]
              have : ¬ ((0 : Int) > 0) := by decide
              simp only [this, decide_false, Bool.false_eq_true, if_false, hz, bind_ok', pure_eq']
              rfl
          · simp only [h2, decide_false, Bool.false_eq_true, if_false]
            by_cases h4 : exponent > 0
            · simp only [h4, decide_true, if_true]
              have hcast : (IntTy.u32.cast exponent).toNat = exponent.toNat := by
                rw [u32_cast_small exponent (by omega) (by omega)]
              rw [hcast]
              have hfit : fitsI128 ((10 : Int) ^ exponent.toNat) = true := by
                rw [fitsI128_iff]
                have hle : exponent.toNat ≤ 38 := by omega
                have h10 : (10 : Int) ^ exponent.toNat ≤ (10 : Int) ^ 38 := by
                  have : (10 : Nat) ^ exponent.toNat ≤ 10 ^ 38 := Nat.pow_le_pow_right (by decide) hle
                  exact_mod_cast this
                have hpos : (0 : Int) < (10 : Int) ^ exponent.toNat := Int.pow_pos (by decide)
                unfold I128_MIN I128_MAX
                constructor
                · omega
                · have : (10 : Int) ^ 38 ≤ 170141183460469231731687303715884105727 := by decide
                  omega
              rw [plainI128_ok prof hfit, bind_ok']
              cases checkedI128 (coeff * (10 : Int) ^ exponent.toNat) with
              | none => rfl
              | some c =>
                simp only [hz, bind_ok', pure_eq']
                rfl
            · simp only [h4, decide_false, Bool.false_eq_true, if_false, hn, bind_ok', pure_eq']
              rfl

end Fpdec.Kernels
