import Fpdec.Gen.KRem
import Fpdec.Kernels.Pow
import Fpdec.Model.Decimal

/-! Tie: the generated translation of `fn rem` (src/binops/rem.rs; the digit loop with its early `return Err(..)` as
fuel-bounded recursion) equals the hand-written model `remCore` (where `none` stands for `Err(InternalOverflow)`). -/

namespace Fpdec.Kernels
open Fpdec Fpdec.Model

/-- the model's `Option Dec` seen as the Rust `Result<(i128, u8), DecimalError>` -/
def remResult : Option Dec → Except Rt.DecimalError (Int × Nat)
  | some d => .ok (d.coeff, d.nfrac)
  | none => .error .internalOverflow

def remLoopResult : Option Int → Nat → Sum (Except Rt.DecimalError (Int × Nat)) (Int × Nat) → Prop
  | some r, _, .inr (r', _) => r' = r
  | none, _, .inl e => e = .error .internalOverflow
  | _, _, _ => False

theorem plainU8_pred (prof : Profile) (n : Nat) (h0 : 0 < n) (h : n < 256) : plainU8 prof ((n : Int) - 1) = .ok (n - 1) := by
  unfold plainU8
  have : 0 ≤ (n : Int) - 1 ∧ (n : Int) - 1 < 256 := by omega
  simp only [this, and_self, if_true]
  congr 1; omega

/-- the generated loop, followed by the code after it, equals the model's loop followed by the model's continuation -/
theorem rem_loop_eq (prof : Profile) (b : Int) (q : Nat) : ∀ (F shift : Nat) (rem : Int), shift < F → shift < 256 →
    (do let t ← Gen.K.rem_loop1 prof b F rem shift
        match t with
        | Sum.inl r => pure r
        | Sum.inr (rem, _) => pure (Except.ok (rem, q)) : Outcome (Except Rt.DecimalError (Int × Nat))) =
    (do match ← remLoop b shift rem with
        | some r => pure (remResult (some ⟨r, q⟩))
        | none => pure (remResult none))
  | 0, shift, rem, h, _ => absurd h (Nat.not_lt_zero _)
  | F + 1, shift, rem, h, hs => by
    unfold Gen.K.rem_loop1
    cases shift with
    | zero =>
      have hb : (decide (rem ≠ 0) && decide (0 > 0)) = false := by simp
      simp only [hb, Bool.false_eq_true, if_false, pure_eq', bind_ok']
      unfold remLoop; rfl
    | succ sh =>
      unfold remLoop
      by_cases hr : rem = 0
      · have hb : (decide (rem ≠ 0) && decide (sh + 1 > 0)) = false := by simp [hr]
        simp only [pure_eq', bind_ok', hr, if_true]
        rfl
      · have hb : (decide (rem ≠ 0) && decide (sh + 1 > 0)) = true := by simp [hr]
        simp only [hb, if_true, hr, if_false]
        cases hm : checkedI128 (rem * 10) with
        | none => rfl
        | some s =>
          simp only []
          have hp := plainU8_pred prof (sh + 1) (by omega) hs
          rw [show ((sh + 1 : Nat) : Int) - 1 = (((sh + 1 : Nat) : Int) - 1) from rfl] at hp
          cases hrem : remI128 s b with
          | panic k => rfl
          | ok r =>
            simp only [bind_ok', hp, Nat.add_sub_cancel]
            exact rem_loop_eq prof b q F sh r (by omega) (by omega)

theorem rem_eq (prof : Profile) (a : Int) (p : Nat) (b : Int) (q : Nat) (hp : p < 256) (hq : q < 256) :
    Gen.K.rem prof a p b q = remResult <$> remCore a p b q := by
  unfold Gen.K.rem remCore
  rcases Nat.lt_trichotomy p q with h | h | h
  · have hc : compare p q = .lt := Nat.compare_eq_lt.mpr h
    simp only [hc, plainU8_sub prof q p hq h, bind_ok', checked_mul_pow_ten_eq]
    cases hm : checkedMulPowTen a (q - p) with
    | some sa =>
      simp only []
      cases remI128 sa b <;> rfl
    | none =>
      simp only []
      cases hr : wrappingRemI128 a b with
      | panic k => rfl
      | ok r =>
        simp only [bind_ok']
        refine (rem_loop_eq prof b q 256 (q - p) r (by omega) (by omega)).trans ?_
        cases remLoop b (q - p) r with
        | panic k => rfl
        | ok o => cases o <;> rfl
  · have hc : compare p q = .eq := Nat.compare_eq_eq.mpr h
    simp only [hc]
    cases wrappingRemI128 a b <;> rfl
  · have hc : compare p q = .gt := Nat.compare_eq_gt.mpr h
    simp only [hc, plainU8_sub prof p q hp h, bind_ok', checked_mul_pow_ten_eq]
    cases hm : checkedMulPowTen b (p - q) with
    | some sb =>
      simp only []
      cases remI128 a sb <;> rfl
    | none => rfl

end Fpdec.Kernels
