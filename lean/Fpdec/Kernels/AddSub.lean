import Fpdec.Gen.KAddSub
import Fpdec.Kernels.Pow
import Fpdec.Model.Decimal

/-! Tie: the bodies of `impl Add<Decimal> for Decimal`, `impl Sub…`, `impl CheckedAdd…`, `impl CheckedSub…` — obtained by
instantiating the `macro_rules!` definitions of add_sub.rs / checked_add_sub.rs with the arguments of their invocations — equal
the hand-written model. -/

namespace Fpdec.Kernels
open Fpdec Fpdec.Model

theorem coeff_or_panic_eq (prof : Profile) (c : Option Int) : Gen.K.coeff_or_panic prof c = coeffOrPanic c := by
  cases c <;> rfl

theorem add_sub_eq (prof : Profile) (sub : Bool) (x y : Dec) (hp : x.nfrac < 256) (hq : y.nfrac < 256) :
    (if sub then Gen.K.decimal_sub prof x y else Gen.K.decimal_add prof x y) = addSub sub x y := by
  unfold addSub
  rcases Nat.lt_trichotomy x.nfrac y.nfrac with h | h | h
  · have hc : compare x.nfrac y.nfrac = .lt := Nat.compare_eq_lt.mpr h
    cases sub
    · unfold Gen.K.decimal_add
      simp only [hc, plainU8_sub prof y.nfrac x.nfrac hq h, bind_ok', mul_pow_ten_eq, coeff_or_panic_eq, Bool.false_eq_true,
        if_false]
    · unfold Gen.K.decimal_sub
      simp only [hc, plainU8_sub prof y.nfrac x.nfrac hq h, bind_ok', mul_pow_ten_eq, coeff_or_panic_eq, if_true]
  · have hc : compare x.nfrac y.nfrac = .eq := Nat.compare_eq_eq.mpr h
    cases sub
    · unfold Gen.K.decimal_add
      simp only [hc, coeff_or_panic_eq, Bool.false_eq_true, if_false]
    · unfold Gen.K.decimal_sub
      simp only [hc, coeff_or_panic_eq, if_true]
  · have hc : compare x.nfrac y.nfrac = .gt := Nat.compare_eq_gt.mpr h
    cases sub
    · unfold Gen.K.decimal_add
      simp only [hc, plainU8_sub prof x.nfrac y.nfrac hp h, bind_ok', mul_pow_ten_eq, coeff_or_panic_eq, Bool.false_eq_true,
        if_false]
    · unfold Gen.K.decimal_sub
      simp only [hc, plainU8_sub prof x.nfrac y.nfrac hp h, bind_ok', mul_pow_ten_eq, coeff_or_panic_eq, if_true]

theorem checked_add_sub_eq (prof : Profile) (sub : Bool) (x y : Dec) (hp : x.nfrac < 256) (hq : y.nfrac < 256) :
    (if sub then Gen.K.decimal_checked_sub prof x y else Gen.K.decimal_checked_add prof x y) = .ok (checkedAddSub sub x y) := by
  unfold checkedAddSub
  rcases Nat.lt_trichotomy x.nfrac y.nfrac with h | h | h
  · have hc : compare x.nfrac y.nfrac = .lt := Nat.compare_eq_lt.mpr h
    cases sub
    · unfold Gen.K.decimal_checked_add
      simp only [hc, plainU8_sub prof y.nfrac x.nfrac hq h, bind_ok', checked_mul_pow_ten_eq, Bool.false_eq_true, if_false]
      cases checkedMulPowTen x.coeff (y.nfrac - x.nfrac) with
      | none => rfl
      | some a => cases h2 : checkedI128 (a + y.coeff) <;> simp [h2] <;> rfl
    · unfold Gen.K.decimal_checked_sub
      simp only [hc, plainU8_sub prof y.nfrac x.nfrac hq h, bind_ok', checked_mul_pow_ten_eq, if_true]
      cases checkedMulPowTen x.coeff (y.nfrac - x.nfrac) with
      | none => rfl
      | some a => cases h2 : checkedI128 (a - y.coeff) <;> simp [h2] <;> rfl
  · have hc : compare x.nfrac y.nfrac = .eq := Nat.compare_eq_eq.mpr h
    cases sub
    · unfold Gen.K.decimal_checked_add
      simp only [hc, Bool.false_eq_true, if_false]
      cases h2 : checkedI128 (x.coeff + y.coeff) <;> simp [h2] <;> rfl
    · unfold Gen.K.decimal_checked_sub
      simp only [hc, if_true]
      cases h2 : checkedI128 (x.coeff - y.coeff) <;> simp [h2] <;> rfl
  · have hc : compare x.nfrac y.nfrac = .gt := Nat.compare_eq_gt.mpr h
    cases sub
    · unfold Gen.K.decimal_checked_add
      simp only [hc, plainU8_sub prof x.nfrac y.nfrac hp h, bind_ok', checked_mul_pow_ten_eq, Bool.false_eq_true, if_false]
      cases checkedMulPowTen y.coeff (x.nfrac - y.nfrac) with
      | none => rfl
      | some b => cases h2 : checkedI128 (x.coeff + b) <;> simp [h2] <;> rfl
    · unfold Gen.K.decimal_checked_sub
      simp only [hc, plainU8_sub prof x.nfrac y.nfrac hp h, bind_ok', checked_mul_pow_ten_eq, if_true]
      cases checkedMulPowTen y.coeff (x.nfrac - y.nfrac) with
      | none => rfl
      | some b => cases h2 : checkedI128 (x.coeff - b) <;> simp [h2] <;> rfl

/-- `impl Add<$t> for Decimal` / `impl Sub<$t> for Decimal` (macro arm instantiated at `$t = i64`; the body does not depend on the type) -/
theorem add_sub_dec_int_eq (prof : Profile) (sub : Bool) (d : Dec) (i : Int) :
    (if sub then Gen.K.decimal_sub_int prof d i else Gen.K.decimal_add_int prof d i) = addSubInt sub false d i := by
  unfold addSubInt
  by_cases h0 : d.nfrac = 0
  · cases sub
    · unfold Gen.K.decimal_add_int
      simp only [h0, decide_true, if_true, coeff_or_panic_eq, Bool.false_eq_true, if_false]
    · unfold Gen.K.decimal_sub_int
      simp only [h0, decide_true, if_true, coeff_or_panic_eq, Bool.false_eq_true, if_false]
  · cases sub
    · unfold Gen.K.decimal_add_int
      simp only [h0, decide_false, Bool.false_eq_true, if_false, mul_pow_ten_eq, coeff_or_panic_eq]
    · unfold Gen.K.decimal_sub_int
      simp only [h0, decide_false, Bool.false_eq_true, if_false, if_true, mul_pow_ten_eq, coeff_or_panic_eq]

/-- `impl Add<Decimal> for $t` / `impl Sub<Decimal> for $t` -/
theorem add_sub_int_dec_eq (prof : Profile) (sub : Bool) (d : Dec) (i : Int) :
    (if sub then Gen.K.int_sub_decimal prof i d else Gen.K.int_add_decimal prof i d) = addSubInt sub true d i := by
  unfold addSubInt
  by_cases h0 : d.nfrac = 0
  · cases sub
    · unfold Gen.K.int_add_decimal
      simp only [h0, decide_true, if_true, coeff_or_panic_eq, Bool.false_eq_true, if_false]
    · unfold Gen.K.int_sub_decimal
      simp only [h0, decide_true, if_true, coeff_or_panic_eq, Bool.false_eq_true, if_false]
  · cases sub
    · unfold Gen.K.int_add_decimal
      simp only [h0, decide_false, Bool.false_eq_true, if_false, if_true, mul_pow_ten_eq, coeff_or_panic_eq]
    · unfold Gen.K.int_sub_decimal
      simp only [h0, decide_false, Bool.false_eq_true, if_false, if_true, mul_pow_ten_eq, coeff_or_panic_eq]

/-! Integer forms of `checked_add` / `checked_sub` (macro `impl_checked_add_sub_decimal_and_int` instantiated with `i64`). -/

theorem checked_int_core (prof : Profile) (n : Nat) (i : Int) (f : Int → Int) (g : Int → Dec) :
    (do let t3 ← (if decide (n = 0) = true then (do pure (checkedI128 (f i)))
          else (do
            let t1 ← Gen.K.checked_mul_pow_ten prof i n
            let some t2 := t1 | pure none
            pure (checkedI128 (f t2))) : Outcome (Option Int))
        let some t4 := t3 | pure none
        pure (some (g t4))) =
      .ok (if n = 0 then (checkedI128 (f i)).map g else (checkedMulPowTen i n).bind fun s => (checkedI128 (f s)).map g) := by
  by_cases h0 : n = 0
  · simp only [h0, decide_true, if_true, pure_eq', bind_ok']
    cases checkedI128 (f i) <;> rfl
  · simp only [h0, decide_false, Bool.false_eq_true, if_false, checked_mul_pow_ten_eq, bind_ok']
    cases checkedMulPowTen i n with
    | none => rfl
    | some s => cases h : checkedI128 (f s) <;> simp [h, pure_eq', bind_ok']

theorem checkedAddSubInt_eq (sub intLeft : Bool) (d : Dec) (i : Int) :
    checkedAddSubInt sub intLeft d i =
      (let op (a b : Int) : Int := if sub then a - b else a + b
       if d.nfrac = 0 then (checkedI128 (if intLeft then op i d.coeff else op d.coeff i)).map (fun c => (⟨c, d.nfrac⟩ : Dec))
       else (checkedMulPowTen i d.nfrac).bind fun s =>
         (checkedI128 (if intLeft then op s d.coeff else op d.coeff s)).map (fun c => (⟨c, d.nfrac⟩ : Dec))) := by
  unfold checkedAddSubInt
  by_cases h0 : d.nfrac = 0
  · simp only [h0, if_true]
    cases checkedI128 (if intLeft then (if sub then i - d.coeff else i + d.coeff) else (if sub then d.coeff - i else d.coeff + i)) <;> rfl
  · simp only [h0, if_false]
    cases checkedMulPowTen i d.nfrac with
    | none => rfl
    | some s =>
      show (checkedI128 (if intLeft then (if sub then s - d.coeff else s + d.coeff) else (if sub then d.coeff - s else d.coeff + s)) >>=
          fun c => pure (⟨c, d.nfrac⟩ : Dec)) = _
      show _ = Option.map (fun c => (⟨c, d.nfrac⟩ : Dec))
        (checkedI128 (if intLeft then (if sub then s - d.coeff else s + d.coeff) else (if sub then d.coeff - s else d.coeff + s)))
      cases checkedI128 (if intLeft then (if sub then s - d.coeff else s + d.coeff) else (if sub then d.coeff - s else d.coeff + s)) <;> rfl

theorem decimal_checked_add_int_eq (prof : Profile) (d : Dec) (i : Int) :
    Gen.K.decimal_checked_add_int prof d i = .ok (checkedAddSubInt false false d i) := by
  rw [checkedAddSubInt_eq]
  exact checked_int_core prof d.nfrac i (fun s => d.coeff + s) (fun c => ⟨c, d.nfrac⟩)

theorem decimal_checked_sub_int_eq (prof : Profile) (d : Dec) (i : Int) :
    Gen.K.decimal_checked_sub_int prof d i = .ok (checkedAddSubInt true false d i) := by
  rw [checkedAddSubInt_eq]
  exact checked_int_core prof d.nfrac i (fun s => d.coeff - s) (fun c => ⟨c, d.nfrac⟩)

theorem int_checked_add_decimal_eq (prof : Profile) (i : Int) (d : Dec) :
    Gen.K.int_checked_add_decimal prof i d = .ok (checkedAddSubInt false true d i) := by
  rw [checkedAddSubInt_eq]
  exact checked_int_core prof d.nfrac i (fun s => s + d.coeff) (fun c => ⟨c, d.nfrac⟩)

theorem int_checked_sub_decimal_eq (prof : Profile) (i : Int) (d : Dec) :
    Gen.K.int_checked_sub_decimal prof i d = .ok (checkedAddSubInt true true d i) := by
  rw [checkedAddSubInt_eq]
  exact checked_int_core prof d.nfrac i (fun s => s - d.coeff) (fun c => ⟨c, d.nfrac⟩)

end Fpdec.Kernels
