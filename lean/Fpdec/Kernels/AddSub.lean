import Fpdec.Gen.KAddSub
import Fpdec.Kernels.Pow
import Fpdec.Model.Decimal

/-! Tie: the bodies of `impl Add<Decimal> for Decimal`, `impl Sub…`, `impl CheckedAdd…`, `impl CheckedSub…` — obtained by
instantiating the `macro_rules!` definitions of add_sub.rs / checked_add_sub.rs with the arguments of their invocations — equal
the hand-written model. -/

namespace Fpdec.Kernels
open Fpdec Fpdec.Model

theorem coeff_or_panic_eq (prof : Profile) (c : Option Int) : Gen.K.coeff_or_panic prof c = coeffOrPanic c := by
  cases c <;> rfl

theorem add_sub_eq (prof : Profile) (sub : Bool) (x y : Dec) (hp : x.nfrac < 256) (hq : y.nfrac < 256) :
    (if sub then Gen.K.decimal_sub prof x y else Gen.K.decimal_add prof x y) = addSub sub x y := by
  unfold addSub
  rcases Nat.lt_trichotomy x.nfrac y.nfrac with h | h | h
  · have hc : compare x.nfrac y.nfrac = .lt := Nat.compare_eq_lt.mpr h
    cases sub
    · unfold Gen.K.decimal_add
      simp only [hc, plainU8_sub prof y.nfrac x.nfrac hq h, bind_ok', mul_pow_ten_eq, coeff_or_panic_eq, Bool.false_eq_true,
        if_false]
    · unfold Gen.K.decimal_sub
      simp only [hc, plainU8_sub prof y.nfrac x.nfrac hq h, bind_ok', mul_pow_ten_eq, coeff_or_panic_eq, if_true]
  · have hc : compare x.nfrac y.nfrac = .eq := Nat.compare_eq_eq.mpr h
    cases sub
    · unfold Gen.K.decimal_add
      simp only [hc, coeff_or_panic_eq, Bool.false_eq_true, if_false]
    · unfold Gen.K.decimal_sub
      simp only [hc, coeff_or_panic_eq, if_true]
  · have hc : compare x.nfrac y.nfrac = .gt := Nat.compare_eq_gt.mpr h
    cases sub
    · unfold Gen.K.decimal_add
      simp only [hc, plainU8_sub prof x.nfrac y.nfrac hp h, bind_ok', mul_pow_ten_eq, coeff_or_panic_eq, Bool.false_eq_true,
        if_false]
    · unfold Gen.K.decimal_sub
      simp only [hc, plainU8_sub prof x.nfrac y.nfrac hp h, bind_ok', mul_pow_ten_eq, coeff_or_panic_eq, if_true]

theorem checked_add_sub_eq (prof : Profile) (sub : Bool) (x y : Dec) (hp : x.nfrac < 256) (hq : y.nfrac < 256) :
    (if sub then Gen.K.decimal_checked_sub prof x y else Gen.K.decimal_checked_add prof x y) = .ok (checkedAddSub sub x y) := by
  unfold checkedAddSub
  rcases Nat.lt_trichotomy x.nfrac y.nfrac with h | h | h
  · have hc : compare x.nfrac y.nfrac = .lt := Nat.compare_eq_lt.mpr h
    cases sub
    · unfold Gen.K.decimal_checked_add
      simp only [hc, plainU8_sub prof y.nfrac x.nfrac hq h, bind_ok', checked_mul_pow_ten_eq, Bool.false_eq_true, if_false]
      cases checkedMulPowTen x.coeff (y.nfrac - x.nfrac) with
      | none => rfl
      | some a => cases h2 : checkedI128 (a + y.coeff) <;> simp [h2] <;> rfl
    · unfold Gen.K.decimal_checked_sub
      simp only [hc, plainU8_sub prof y.nfrac x.nfrac hq h, bind_ok', checked_mul_pow_ten_eq, if_true]
      cases checkedMulPowTen x.coeff (y.nfrac - x.nfrac) with
      | none => rfl
      | some a => cases h2 : checkedI128 (a - y.coeff) <;> simp [h2] <;> rfl
  · have hc : compare x.nfrac y.nfrac = .eq := Nat.compare_eq_eq.mpr h
    cases sub
    · unfold Gen.K.decimal_checked_add
      simp only [hc, Bool.false_eq_true, if_false]
      cases h2 : checkedI128 (x.coeff + y.coeff) <;> simp [h2] <;> rfl
    · unfold Gen.K.decimal_checked_sub
      simp only [hc, if_true]
      cases h2 : checkedI128 (x.coeff - y.coeff) <;> simp [h2] <;> rfl
  · have hc : compare x.nfrac y.nfrac = .gt := Nat.compare_eq_gt.mpr h
    cases sub
    · unfold Gen.K.decimal_checked_add
      simp only [hc, plainU8_sub prof x.nfrac y.nfrac hp h, bind_ok', checked_mul_pow_ten_eq, Bool.false_eq_true, if_false]
      cases checkedMulPowTen y.coeff (x.nfrac - y.nfrac) with
      | none => rfl
      | some b => cases h2 : checkedI128 (x.coeff + b) <;> simp [h2] <;> rfl
    · unfold Gen.K.decimal_checked_sub
      simp only [hc, plainU8_sub prof x.nfrac y.nfrac hp h, bind_ok', checked_mul_pow_ten_eq, if_true]
      cases checkedMulPowTen y.coeff (x.nfrac - y.nfrac) with
      | none => rfl
      | some b => cases h2 : checkedI128 (x.coeff - b) <;> simp [h2] <;> rfl

/-- `impl Add<$t> for Decimal` / `impl Sub<$t> for Decimal` (macro arm instantiated at `$t = i64`; the body does not depend on the type) -/
theorem add_sub_dec_int_eq (prof : Profile) (sub : Bool) (d : Dec) (i : Int) :
    (if sub then Gen.K.decimal_sub_int prof d i else Gen.K.decimal_add_int prof d i) = addSubInt sub false d i := by
  unfold addSubInt
  by_cases h0 : d.nfrac = 0
  · cases sub
    · unfold Gen.K.decimal_add_int
      simp only [h0, decide_true, if_true, coeff_or_panic_eq, Bool.false_eq_true, if_false]
    · unfold Gen.K.decimal_sub_int
      simp only [h0, decide_true, if_true, coeff_or_panic_eq, Bool.false_eq_true, if_false]
  · cases sub
    · unfold Gen.K.decimal_add_int
      simp only [h0, decide_false, Bool.false_eq_true, if_false, mul_pow_ten_eq, coeff_or_panic_eq]
    · unfold Gen.K.decimal_sub_int
      simp only [h0, decide_false, Bool.false_eq_true, if_false, if_true, mul_pow_ten_eq, coeff_or_panic_eq]

/-- `impl Add<Decimal> for $t` / `impl Sub<Decimal> for $t` -/
theorem add_sub_int_dec_eq (prof : Profile) (sub : Bool) (d : Dec) (i : Int) :
    (if sub then Gen.K.int_sub_decimal prof i d else Gen.K.int_add_decimal prof i d) = addSubInt sub true d i := by
  unfold addSubInt
  by_cases h0 : d.nfrac = 0
  · cases sub
    · unfold Gen.K.int_add_decimal
      simp only [h0, decide_true, if_true, coeff_or_panic_eq, Bool.false_eq_true, if_false]
    · unfold Gen.K.int_sub_decimal
      simp only [h0, decide_true, if_true, coeff_or_panic_eq, Bool.false_eq_true, if_false]
  · cases sub
    · unfold Gen.K.int_add_decimal
      simp only [h0, decide_false, Bool.false_eq_true, if_false, if_true, mul_pow_ten_eq, coeff_or_panic_eq]
    · unfold Gen.K.int_sub_decimal
      simp only [h0, decide_false, Bool.false_eq_true, if_false, if_true, mul_pow_ten_eq, coeff_or_panic_eq]

end Fpdec.Kernels
