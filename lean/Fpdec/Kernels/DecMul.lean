import Fpdec.Gen.KDecMul
import Fpdec.Kernels.DecDiv

/-! Tie: the generated translation of `checked_mul_rounded` (src/binops/mul_rounded.rs) equals the hand-written model. -/

namespace Fpdec.Kernels
open Fpdec Fpdec.Model

theorem checked_mul_rounded_eq (prof : Profile) (tm : Mode) (x y : Dec) (n : Nat) (hn : n < 256) :
    Gen.K.checked_mul_rounded prof tm x y n = checkedMulRounded prof tm x y n := by
  unfold Gen.K.checked_mul_rounded checkedMulRounded
  rw [show ((x.nfrac : Int) + (y.nfrac : Int)) = ((x.nfrac + y.nfrac : Nat) : Int) from (Int.natCast_add _ _).symm]
  cases hs : plainU8 prof ((x.nfrac + y.nfrac : Nat) : Int) with
  | panic k => rfl
  | ok maxN =>
    have hml := plainU8_lt prof _ _ hs
    simp only [bind_ok']
    by_cases hge : n ≥ maxN
    · simp only [hge, decide_true, if_true]
      cases checkedI128 (x.coeff * y.coeff) <;> rfl
    · simp only [hge, decide_false, Bool.false_eq_true, if_false, plainU8_sub prof maxN n hml (by omega), bind_ok']
      cases hm : checkedI128 (x.coeff * y.coeff) with
      | some c =>
        simp only [ten_pow_eq, i128_div_rounded_eq prof tm c _ none (checkedI128_fits _ _ hm)]
      | none =>
        simp only [i128_mul_div_ten_pow_rounded_eq']
        cases i128MulDivTenPowRounded prof tm x.coeff y.coeff (maxN - n) none with
        | panic k => rfl
        | ok o => cases o <;> rfl

end Fpdec.Kernels
