import Fpdec.Gen.KFloat
import Fpdec.Kernels.Norm
import Fpdec.Model.Float

/-! Tie: the generated translation of `approx_rational` (src/from_float.rs; digit loop as fuel-bounded recursion) equals the
hand-written model (`approxLoop` counts the remaining iterations allowed by `n_frac_digits < 18`). -/

namespace Fpdec.Kernels
open Fpdec Fpdec.Model

/-- projection of the generated loop state `(rem, n_frac_digits, magn_coeff, coeff)` onto the model's `(coeff, rem, nfrac)` -/
def projLoop : Int × Nat × Nat × Int → Int × Int × Nat := fun s => (s.2.2.2, s.1, s.2.1)

theorem plainU8_add1 (prof : Profile) (n : Nat) (h : n < 255) : plainU8 prof ((n : Int) + 1) = .ok (n + 1) := by
  unfold plainU8
  have : 0 ≤ (n : Int) + 1 ∧ (n : Int) + 1 < 256 := by omega
  simp only [this, and_self, if_true]
  congr 1

theorem approx_loop_eq (prof : Profile) (d : Int) : ∀ (F k : Nat) (coeff rem : Int) (n magn : Nat),
    n + k = 18 → k < F → magn < 256 →
    projLoop <$> Gen.K.approx_rational_loop1 prof d F rem n magn coeff = approxLoop prof d k coeff rem n magn
  | 0, k, _, _, _, _, _, h, _ => absurd h (Nat.not_lt_zero _)
  | F + 1, k, coeff, rem, n, magn, hk, hF, hm => by
    unfold Gen.K.approx_rational_loop1
    have h37 : plainU8 prof ((Gen.FROM_FLT_MAGN_I128_MAX : Int) - 1) = .ok 37 := by
      unfold Gen.FROM_FLT_MAGN_I128_MAX plainU8; rfl
    cases k with
    | zero =>
      have hn : ¬ n < Gen.MAX_N_FRAC_DIGITS := by unfold Gen.MAX_N_FRAC_DIGITS; omega
      simp only [hn, decide_false, Bool.and_false, Bool.false_eq_true, if_false, pure_eq', bind_ok']
      unfold approxLoop; rfl
    | succ k =>
      have hn : n < Gen.MAX_N_FRAC_DIGITS := by unfold Gen.MAX_N_FRAC_DIGITS; omega
      unfold approxLoop
      by_cases hc : rem ≠ 0 ∧ magn < Gen.FROM_FLT_MAGN_I128_MAX - 1
      · have hm37 : magn < 37 := by have := hc.2; unfold Gen.FROM_FLT_MAGN_I128_MAX at this; omega
        have hr : rem ≠ 0 := hc.1
        simp only [hr, hn, ne_eq, not_false_eq_true, decide_true, Bool.and_self, if_true, h37, bind_ok', pure_eq', hm37,
          hc, and_self]
        rw [map_bind]; refine bind_congr _ (fun r10 => ?_)
        rw [map_bind]; refine bind_congr _ (fun q => ?_)
        rw [map_bind]; refine bind_congr _ (fun r => ?_)
        have e1 : plainU8 prof ((n : Int) + 1) = .ok (n + 1) := plainU8_add1 prof n (by unfold Gen.MAX_N_FRAC_DIGITS at hn; omega)
        simp only [e1, bind_ok']
        have e2 : plainU8 prof ((magn : Int) + 1) = .ok (magn + 1) := plainU8_add1 prof magn (by omega)
        have e2' : plainU8 prof (((magn + 1 : Nat) : Int)) = .ok (magn + 1) := by
          rw [Int.natCast_add]; exact e2
        rw [e2]
        simp only [bind_ok']
        rw [show ((magn : Int) + 1) = ((magn + 1 : Nat) : Int) from (Int.natCast_add magn 1).symm] at *
        rw [map_bind]; refine bind_congr _ (fun c10 => ?_)
        rw [map_bind]; refine bind_congr _ (fun c => ?_)
        exact approx_loop_eq prof d F k c r (n + 1) (magn + 1) (by omega) (by omega) (by omega)
      · have hb : (if (decide (rem ≠ 0) && decide (n < Gen.MAX_N_FRAC_DIGITS)) = true then
              (do let t6 ← plainU8 prof ((Gen.FROM_FLT_MAGN_I128_MAX : Int) - 1); pure (decide (magn < t6)))
            else pure false : Outcome Bool) = .ok false := by
          rw [h37]
          by_cases hr : rem ≠ 0
          · have : ¬ magn < 37 := by
              intro h; apply hc; refine ⟨hr, ?_⟩; unfold Gen.FROM_FLT_MAGN_I128_MAX; omega
            simp [hr, hn, this]
          · simp [hr]
        rw [hb]
        simp only [bind_ok', Bool.false_eq_true, if_false, pure_eq', hc, map_ok']
        rfl

end Fpdec.Kernels

namespace Fpdec.Kernels
open Fpdec Fpdec.Model

theorem approxLoop_nfrac (prof : Profile) (d : Int) : ∀ (k : Nat) (coeff rem : Int) (n magn : Nat) (c r : Int) (nf : Nat),
    approxLoop prof d k coeff rem n magn = .ok (c, r, nf) → nf ≤ n + k
  | 0, coeff, rem, n, magn, c, r, nf, h => by
    unfold approxLoop at h
    have := Outcome.ok.inj h
    have h3 : n = nf := congrArg (fun t => t.2.2) this
    omega
  | k + 1, coeff, rem, n, magn, c, r, nf, h => by
    unfold approxLoop at h
    by_cases hc : rem ≠ 0 ∧ magn < Gen.FROM_FLT_MAGN_I128_MAX - 1
    · rw [if_pos hc] at h
      obtain ⟨r10, _, h⟩ := bind_inv h
      obtain ⟨q, _, h⟩ := bind_inv h
      obtain ⟨r', _, h⟩ := bind_inv h
      obtain ⟨m', _, h⟩ := bind_inv h
      obtain ⟨c10, _, h⟩ := bind_inv h
      obtain ⟨c', _, h⟩ := bind_inv h
      have := approxLoop_nfrac prof d k c' r' (n + 1) m' c r nf h
      omega
    · rw [if_neg hc] at h
      have := Outcome.ok.inj h
      have h3 : n = nf := congrArg (fun t => t.2.2) this
      omega

theorem magnitude_lt (c : Int) : i128Magnitude c < 256 := by
  unfold i128Magnitude; exact Nat.mod_lt _ (by decide)

theorem approx_rational_eq (prof : Profile) (a d : Int) :
    Gen.K.approx_rational prof a d = approxRational prof a d := by
  unfold Gen.K.approx_rational approxRational
  cases hassert : Fpdec.assert (decide (d > 0)) with
  | panic k => rfl
  | ok u =>
    simp only [bind_ok']
    by_cases h1 : d = 1
    · simp [h1]
    · by_cases h0 : a = 0
      · simp [h1, h0]
      · simp only [h1, h0, decide_false, Bool.false_eq_true, if_false]
        cases hab : plainI128 prof (if a < 0 then -a else a) with
        | panic k => rfl
        | ok a' =>
          simp only [bind_ok']
          refine bind_congr _ (fun coeff => ?_)
          refine bind_congr _ (fun rem => ?_)
          simp only [Gen.MAX_N_FRAC_DIGITS]
          have hl := approx_loop_eq prof d 32 18 coeff rem 0 (i128Magnitude coeff) (by decide) (by decide) (magnitude_lt coeff)
          rw [← hl, bind_map]
          refine bind_congr_ok _ (fun s hs => ?_)
          obtain ⟨r, nf, mg, c⟩ := s
          have hnf : nf ≤ 0 + 18 := by
            rw [hs, map_ok'] at hl
            exact approxLoop_nfrac prof d 18 coeff rem 0 (i128Magnitude coeff) c r nf hl.symm
          simp only [projLoop]
          have e2 : (2 : Int) ^ 1 = 2 := by decide
          rw [e2]
          have hnorm : ∀ t : Int, (do let x ← Gen.K.normalize prof t nf; pure (x.fst, x.snd) : Outcome (Int × Nat)) =
              pure (normalize t nf) := by
            intro t; rw [normalize_eq prof t nf (by omega)]; rfl
          by_cases hc : IntTy.i128.cast (r * 2) > d ∨ IntTy.i128.cast (r * 2) = d ∧ c % 2 = 1
          · have hb : (decide (IntTy.i128.cast (r * 2) > d) ||
                decide (IntTy.i128.cast (r * 2) = d) && decide (c % 2 = 1)) = true := by simpa using hc
            simp only [hb, hc, if_true, bind_assoc', pure_eq', bind_ok']
            refine bind_congr _ (fun t15 => ?_)
            refine bind_congr _ (fun t16 => ?_)
            exact hnorm t16
          · have hb : (decide (IntTy.i128.cast (r * 2) > d) ||
                decide (IntTy.i128.cast (r * 2) = d) && decide (c % 2 = 1)) = false := by simpa using hc
            simp only [hb, hc, Bool.false_eq_true, if_false, pure_eq', bind_ok']
            refine bind_congr _ (fun t16 => ?_)
            exact hnorm t16

end Fpdec.Kernels
