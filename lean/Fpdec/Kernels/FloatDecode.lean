import Fpdec.Gen.KFloat
import Fpdec.Kernels.Basic
import Fpdec.Lemmas.FromFloatDecode

/-! Tie: the generated translations of `f64_decode` / `f32_decode` equal the model's `floatDecode` (whose constants come from the
generated table); the plain `i16` / `i8` operations of the Rust code never overflow. -/

namespace Fpdec.Kernels
open Fpdec Fpdec.Model

theorem i16_plain_ok (prof : Profile) (x : Int) (h0 : -32768 ≤ x) (h1 : x ≤ 32767) : IntTy.i16.plain prof x = .ok x := by
  unfold IntTy.plain
  have : IntTy.i16.fits x = true := by
    unfold IntTy.fits IntTy.min IntTy.max IntTy.i16
    simp only [if_true]
    have e : (2 : Int) ^ (16 - 1) = 32768 := by decide
    rw [e]; simp; omega
  simp [this]

theorem i8_plain_ok (prof : Profile) (x : Int) (h0 : -128 ≤ x) (h1 : x ≤ 127) : IntTy.i8.plain prof x = .ok x := by
  unfold IntTy.plain
  have : IntTy.i8.fits x = true := by
    unfold IntTy.fits IntTy.min IntTy.max IntTy.i8
    simp only [if_true]
    have e : (2 : Int) ^ (8 - 1) = 128 := by decide
    rw [e]; simp; omega
  simp [this]

theorem i16_cast_small (x : Int) (h0 : 0 ≤ x) (h1 : x < 32768) : IntTy.i16.cast x = x := by
  unfold IntTy.cast IntTy.wrap IntTy.i16
  simp only [if_true]
  have e1 : (2 : Int) ^ (16 - 1) = 32768 := by decide
  have e2 : (2 : Int) ^ 16 = 65536 := by decide
  rw [e1, e2]; omega

theorem i8_cast_small (x : Int) (h0 : 0 ≤ x) (h1 : x < 128) : IntTy.i8.cast x = x := by
  unfold IntTy.cast IntTy.wrap IntTy.i8
  simp only [if_true]
  have e1 : (2 : Int) ^ (8 - 1) = 128 := by decide
  have e2 : (2 : Int) ^ 8 = 256 := by decide
  rw [e1, e2]; omega

end Fpdec.Kernels

namespace Fpdec.Kernels
open Fpdec Fpdec.Model

theorem f64_decode_eq (prof : Profile) (bits : Nat) (hb : bits < 18446744073709551616) :
    Gen.K.f64_decode prof bits = floatDecode Spec.FloatFmt.f64 bits := by
  unfold floatDecode
  rw [consts_f64, decode_match]
  unfold Gen.K.f64_decode
  simp only []
  have e2 : ∀ x : Nat, x &&& 2047 = x % 2048 := fun x => Nat.and_two_pow_sub_one_eq_mod x 11
  have hbe : (bits >>> 52) % 2048 < 2048 := Nat.mod_lt _ (by decide)
  have hc : IntTy.i16.cast ((((bits >>> 52) &&& 2047 : Nat)) : Int) = (((bits >>> 52) % 2048 : Nat) : Int) := by
    rw [e2]; exact i16_cast_small _ (by omega) (by omega)
  rw [hc]
  have hs : bits >>> 63 < 2 := by rw [Nat.shiftRight_eq_div_pow]; omega
  have hw : Rt.wrapU 8 (bits >>> 63) = bits >>> 63 := wrapU_id 8 _ (by omega)
  have hm : (bits >>> 63) % 256 = bits >>> 63 := Nat.mod_eq_of_lt (by omega)
  rw [hw, hm]
  generalize (bits >>> 52) % 2048 = be at hbe ⊢
  generalize bits >>> 63 = sb at hs ⊢
  by_cases hnan : be = 2047
  · subst hnan; rfl
  · have hdec : decide (((be : Nat) : Int) ≠ 2047) = true := by simp only [decide_eq_true_eq]; omega
    have hdec' : decide (((be : Nat) : Int) ≠ ((2047 : Nat) : Int)) = true := hdec
    simp only [Fpdec.assert, hdec, hdec', if_true, bind_ok']
    by_cases h0 : be = 0
    · subst h0; rfl
    · have h0' : ¬ ((be : Nat) : Int) = 0 := by omega
      simp only [h0', decide_false, Bool.false_eq_true, if_false]
      have p1 : IntTy.i16.plain prof (((be : Nat) : Int) - 1023) = .ok (((be : Nat) : Int) - 1023) :=
        i16_plain_ok prof _ (by omega) (by omega)
      have p2 : IntTy.i16.plain prof (((be : Nat) : Int) - 1023 - 52) = .ok (((be : Nat) : Int) - 1023 - 52) :=
        i16_plain_ok prof _ (by omega) (by omega)
      have hsh : Rt.wrapU 8 (sb <<< 1) = sb <<< 1 := wrapU_id 8 _ (by rw [Nat.shiftLeft_eq]; omega)
      have hsh' : (sb <<< 1) % 256 = sb <<< 1 := Nat.mod_eq_of_lt (by rw [Nat.shiftLeft_eq]; omega)
      have hc8 : IntTy.i8.cast (((sb <<< 1 : Nat)) : Int) = ((sb <<< 1 : Nat) : Int) :=
        i8_cast_small _ (by omega) (by rw [Nat.shiftLeft_eq]; omega)
      have p3 : IntTy.i8.plain prof (1 - ((sb <<< 1 : Nat) : Int)) = .ok (1 - ((sb <<< 1 : Nat) : Int)) :=
        i8_plain_ok prof _ (by rw [Nat.shiftLeft_eq]; omega) (by rw [Nat.shiftLeft_eq]; omega)
      simp only [p1, p2, hsh, p3, bind_ok', pure_eq']
      have hlt : ((sb <<< 1 : Nat) : Int) < 256 := by rw [Nat.shiftLeft_eq]; omega
      rw [Int.emod_eq_of_lt (by omega) hlt, hc8]
      simp only [p3, bind_ok']
      rfl

theorem f32_decode_eq (prof : Profile) (bits : Nat) (hb : bits < 4294967296) :
    Gen.K.f32_decode prof bits = floatDecode Spec.FloatFmt.f32 bits := by
  unfold floatDecode
  rw [consts_f32, decode_match]
  unfold Gen.K.f32_decode
  simp only []
  have e2 : ∀ x : Nat, x &&& 255 = x % 256 := fun x => Nat.and_two_pow_sub_one_eq_mod x 8
  have hbe : (bits >>> 23) % 256 < 256 := Nat.mod_lt _ (by decide)
  have hc : IntTy.i16.cast ((((bits >>> 23) &&& 255 : Nat)) : Int) = (((bits >>> 23) % 256 : Nat) : Int) := by
    rw [e2]; exact i16_cast_small _ (by omega) (by omega)
  rw [hc]
  have hs : bits >>> 31 < 2 := by rw [Nat.shiftRight_eq_div_pow]; omega
  have hw : Rt.wrapU 8 (bits >>> 31) = bits >>> 31 := wrapU_id 8 _ (by omega)
  have hm : (bits >>> 31) % 256 = bits >>> 31 := Nat.mod_eq_of_lt (by omega)
  rw [hw, hm]
  generalize (bits >>> 23) % 256 = be at hbe ⊢
  generalize bits >>> 31 = sb at hs ⊢
  by_cases hnan : be = 255
  · subst hnan; rfl
  · have hdec : decide (((be : Nat) : Int) ≠ 255) = true := by simp only [decide_eq_true_eq]; omega
    have hdec' : decide (((be : Nat) : Int) ≠ ((255 : Nat) : Int)) = true := hdec
    simp only [Fpdec.assert, hdec, hdec', if_true, bind_ok']
    by_cases h0 : be = 0
    · subst h0; rfl
    · have h0' : ¬ ((be : Nat) : Int) = 0 := by omega
      simp only [h0', decide_false, Bool.false_eq_true, if_false]
      have p1 : IntTy.i16.plain prof (((be : Nat) : Int) - 127) = .ok (((be : Nat) : Int) - 127) :=
        i16_plain_ok prof _ (by omega) (by omega)
      have p2 : IntTy.i16.plain prof (((be : Nat) : Int) - 127 - 23) = .ok (((be : Nat) : Int) - 127 - 23) :=
        i16_plain_ok prof _ (by omega) (by omega)
      have hsh : Rt.wrapU 8 (sb <<< 1) = sb <<< 1 := wrapU_id 8 _ (by rw [Nat.shiftLeft_eq]; omega)
      have hsh' : (sb <<< 1) % 256 = sb <<< 1 := Nat.mod_eq_of_lt (by rw [Nat.shiftLeft_eq]; omega)
      have hc8 : IntTy.i8.cast (((sb <<< 1 : Nat)) : Int) = ((sb <<< 1 : Nat) : Int) :=
        i8_cast_small _ (by omega) (by rw [Nat.shiftLeft_eq]; omega)
      have p3 : IntTy.i8.plain prof (1 - ((sb <<< 1 : Nat) : Int)) = .ok (1 - ((sb <<< 1 : Nat) : Int)) :=
        i8_plain_ok prof _ (by rw [Nat.shiftLeft_eq]; omega) (by rw [Nat.shiftLeft_eq]; omega)
      simp only [p1, p2, hsh, p3, bind_ok', pure_eq']
      have hlt : ((sb <<< 1 : Nat) : Int) < 256 := by rw [Nat.shiftLeft_eq]; omega
      rw [Int.emod_eq_of_lt (by omega) hlt, hc8]
      simp only [p3, bind_ok']
      rfl

end Fpdec.Kernels
