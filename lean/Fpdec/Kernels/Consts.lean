import Fpdec.Gen.Consts
import Fpdec.Model.Decimal

/-! Tie: the associated constants of `Decimal` (src/lib.rs: `ZERO`, `ONE`, `NEG_ONE`, `TWO`, `TEN`, `MAX`, `MIN`, `DELTA`), re-extracted
from the source on every run, are the constants of the hand-written model — the translated kernels refer to `Self::ZERO` /
`Self::ONE` through the model's `Dec.ZERO` / `Dec.ONE`, and `MIN ..= MAX` is the operand domain `Dom` of every property. -/

namespace Fpdec.Kernels
open Fpdec Fpdec.Model

theorem decimal_consts_tie :
    Gen.DECIMAL_CONSTS =
      [("ZERO", Dec.ZERO.coeff, Dec.ZERO.nfrac), ("ONE", Dec.ONE.coeff, Dec.ONE.nfrac),
       ("NEG_ONE", Dec.NEG_ONE.coeff, Dec.NEG_ONE.nfrac), ("TWO", Dec.TWO.coeff, Dec.TWO.nfrac),
       ("TEN", Dec.TEN.coeff, Dec.TEN.nfrac), ("MAX", Dec.MAX.coeff, Dec.MAX.nfrac), ("MIN", Dec.MIN.coeff, Dec.MIN.nfrac),
       ("DELTA", Dec.DELTA.coeff, Dec.DELTA.nfrac)] := by decide

/-- `Decimal::MIN ..= Decimal::MAX` with at most `MAX_N_FRAC_DIGITS` digits is the domain the property theorems quantify over -/
theorem dom_is_min_max (d : Dec) :
    (Dec.MIN.coeff ≤ d.coeff ∧ d.coeff ≤ Dec.MAX.coeff ∧ d.nfrac ≤ Dec.DELTA.nfrac) ↔
    (I128_MIN < d.coeff ∧ d.coeff ≤ I128_MAX ∧ d.nfrac ≤ 18) := by
  have h : Dec.DELTA.nfrac = 18 := by decide
  simp only [Dec.MIN, Dec.MAX, h]
  omega

end Fpdec.Kernels
