import Fpdec.Gen.KWideDiv
import Fpdec.Kernels.Wide
import Fpdec.Kernels.Pow
import Fpdec.Lemmas.Wide

/-! Tie: generated translations of the 256-bit division stack — `u128_msb`, `u256_idiv_u64`, `u256_idiv_u128` and the two signed
wrappers `i128_shifted_div_mod_floor`, `i256_div_mod_floor` (with their sign fix-up) — equal the hand-written model.  The Knuth
step `u256_idiv_u128_special` (two correction loops with `break`) is referred to through the model. -/

namespace Fpdec.Kernels
open Fpdec Fpdec.Model

theorem divU_eq (x y : Nat) (h : y ≠ 0) : Rt.divU x y = .ok (x / y) := by unfold Rt.divU; simp [h]
theorem remU_eq (x y : Nat) (h : y ≠ 0) : Rt.remU x y = .ok (x % y) := by unfold Rt.remU; simp [h]

theorem u256_idiv_u64_eq (prof : Profile) (xh xl y : Nat) :
    Gen.K.u256_idiv_u64 prof xh xl y = u256IdivU64 prof xh xl y := by
  unfold Gen.K.u256_idiv_u64 u256IdivU64
  by_cases h1 : y = 1
  · simp [h1]
  · simp only [h1, decide_false, Bool.false_eq_true, if_false]
    by_cases h0 : y = 0
    · subst h0
      simp only [u128_hi_eq, bind_ok', if_true]
      rfl
    · simp only [h0, if_false, u128_hi_eq, u128_lo_eq, bind_ok', divU_eq _ _ h0, remU_eq _ _ h0, wrapU_128]
      refine bind_congr _ (fun tl => ?_)
      refine bind_congr _ (fun xh' => ?_)
      refine bind_congr _ (fun th => ?_)
      refine bind_congr _ (fun tl2 => ?_)
      refine bind_congr _ (fun xl' => ?_)
      rfl

theorem u256_idiv_u128_eq (prof : Profile) (xh xl y : Nat) :
    Gen.K.u256_idiv_u128 prof xh xl y = u256IdivU128 prof xh xl y := by
  unfold Gen.K.u256_idiv_u128 u256IdivU128
  simp only [u128_hi_eq, u128_lo_eq, bind_ok']
  by_cases h1 : u128Hi y = 0
  · simp only [h1, decide_true, if_true, u256_idiv_u64_eq]
    have : Rt.wrapU 64 (u128Lo y) = u128Lo y % U64_MOD := by unfold Rt.wrapU U64_MOD; rfl
    rw [this]
    cases u256IdivU64 prof xh xl (u128Lo y % U64_MOD) with
    | panic k => rfl
    | ok r => rfl
  · simp only [h1, decide_false, Bool.false_eq_true, if_false]
    by_cases h2 : xh < y
    · simp only [h2, decide_true, if_true]
      cases u256IdivU128Special prof xh xl y with
      | panic k => rfl
      | ok r => rfl
    · simp only [h2, decide_false, Bool.false_eq_true, if_false]
      have hy : y ≠ 0 := by
        intro h; apply h1; rw [h]; rfl
      simp only [divU_eq _ _ hy, remU_eq _ _ hy, bind_ok']

theorem u128_cast_max : (IntTy.u128.cast I128_MAX).toNat = 170141183460469231731687303715884105727 := by
  unfold IntTy.cast IntTy.wrap IntTy.u128 I128_MAX
  simp only [Bool.false_eq_true, if_false]
  have e : (2 : Int) ^ 128 = 340282366920938463463374607431768211456 := by decide
  rw [e]; rfl

/-- the sign fix-up shared by both signed wrappers, as generated (condition on the dividend sign given as `neg`) -/
theorem over_cond (xh xl : Nat) :
    (decide (xh ≠ 0) || decide (xl > (IntTy.u128.cast I128_MAX).toNat)) = true ↔ (xh ≠ 0 ∨ (xl : Int) > I128_MAX) := by
  rw [u128_cast_max]; unfold I128_MAX
  simp only [Bool.or_eq_true, decide_eq_true_eq]
  constructor
  · rintro (h | h)
    · exact Or.inl h
    · exact Or.inr (by omega)
  · rintro (h | h)
    · exact Or.inl h
    · exact Or.inr (by omega)

theorem i256_div_mod_floor_eq (prof : Profile) (x1 x2 y : Int) :
    Gen.K.i256_div_mod_floor_k prof x1 x2 y = i256DivModFloor prof x1 x2 y := by
  unfold Gen.K.i256_div_mod_floor_k i256DivModFloor
  refine bind_congr _ (fun _ => ?_)
  rw [u128_mul_u128_eq]
  refine bind_congr _ (fun hl => ?_)
  obtain ⟨xh, xl⟩ := hl
  simp only [u256_idiv_u128_eq]
  refine bind_congr _ (fun qr => ?_)
  obtain ⟨xh', xl', r⟩ := qr
  simp only []
  by_cases hc : xh' ≠ 0 ∨ (xl' : Int) > I128_MAX
  · have hb := (over_cond xh' xl').mpr hc
    rw [if_pos hc]; simp only [hb, if_true]
  · have hb : (decide (xh' ≠ 0) || decide (xl' > (IntTy.u128.cast I128_MAX).toNat)) = false := by
      cases h : (decide (xh' ≠ 0) || decide (xl' > (IntTy.u128.cast I128_MAX).toNat)) with
      | false => rfl
      | true => exact absurd ((over_cond xh' xl').mp h) hc
    rw [if_neg hc]
    simp only [hb, Bool.false_eq_true, if_false]
    have hq : IntTy.i128.cast ((xl' : Nat) : Int) = (xl' : Int) := by
      apply cast_i128_id
      · unfold I128_MIN; omega
      · exact Int.not_lt.mp (fun h => hc (Or.inr h))
    rw [hq]
    by_cases hs : (decide (x1 < 0) != decide (x2 < 0)) = true
    · have hs' : decide (decide (x1 < 0) ≠ decide (x2 < 0)) = true := by simpa using hs
      simp only [hs, hs', if_true]
      by_cases hr : IntTy.i128.cast ((r : Nat) : Int) = 0
      · simp only [hr, decide_true, if_true, bind_assoc', bind_ok', pure_eq']
      · simp only [hr, decide_false, Bool.false_eq_true, if_false, bind_assoc', bind_ok', pure_eq']
    · have hs' : decide (decide (x1 < 0) ≠ decide (x2 < 0)) = false := by simpa using hs
      simp only [hs, hs', Bool.false_eq_true, if_false, bind_ok', pure_eq']

theorem i128_shifted_div_mod_floor_eq (prof : Profile) (x : Int) (p : Nat) (y : Int) :
    Gen.K.i128_shifted_div_mod_floor_k prof x p y = i128ShiftedDivModFloor prof x p y := by
  unfold Gen.K.i128_shifted_div_mod_floor_k i128ShiftedDivModFloor
  rw [ten_pow_eq]
  refine bind_congr _ (fun t => ?_)
  rw [u128_mul_u128_eq]
  refine bind_congr _ (fun hl => ?_)
  obtain ⟨xh, xl⟩ := hl
  simp only [u256_idiv_u128_eq]
  refine bind_congr _ (fun qr => ?_)
  obtain ⟨xh', xl', r⟩ := qr
  simp only []
  by_cases hc : xh' ≠ 0 ∨ (xl' : Int) > I128_MAX
  · have hb := (over_cond xh' xl').mpr hc
    rw [if_pos hc]; simp only [hb, if_true]
  · have hb : (decide (xh' ≠ 0) || decide (xl' > (IntTy.u128.cast I128_MAX).toNat)) = false := by
      cases h : (decide (xh' ≠ 0) || decide (xl' > (IntTy.u128.cast I128_MAX).toNat)) with
      | false => rfl
      | true => exact absurd ((over_cond xh' xl').mp h) hc
    rw [if_neg hc]
    simp only [hb, Bool.false_eq_true, if_false]
    have hq : IntTy.i128.cast ((xl' : Nat) : Int) = (xl' : Int) := by
      apply cast_i128_id
      · unfold I128_MIN; omega
      · exact Int.not_lt.mp (fun h => hc (Or.inr h))
    rw [hq]
    by_cases hx : x < 0
    · simp only [hx, decide_true, if_true]
      by_cases hy : y < 0
      · simp only [hy, decide_true, if_true, bind_assoc', bind_ok', pure_eq']
      · simp only [hy, decide_false, Bool.false_eq_true, if_false]
        by_cases hr : IntTy.i128.cast ((r : Nat) : Int) = 0
        · simp only [hr, decide_true, if_true, bind_assoc', bind_ok', pure_eq']
        · simp only [hr, decide_false, Bool.false_eq_true, if_false, bind_assoc', bind_ok', pure_eq']
    · simp only [hx, decide_false, Bool.false_eq_true, if_false]
      by_cases hy : y < 0
      · simp only [hy, decide_true, if_true]
        by_cases hr : IntTy.i128.cast ((r : Nat) : Int) = 0
        · simp only [hr, decide_true, if_true, bind_assoc', bind_ok', pure_eq']
        · simp only [hr, decide_false, Bool.false_eq_true, if_false, bind_assoc', bind_ok', pure_eq']
      · simp only [hy, decide_false, Bool.false_eq_true, if_false, bind_ok', pure_eq']

/-- one step of the binary search, as generated, equals `msbStep` (the `u8` addition cannot overflow) -/
theorem msb_step (prof : Profile) (mask sh n i : Nat) (h : n + sh < 256) :
    ((if decide ((i &&& mask) ≠ 0) = true then (do
        let t ← plainU8 prof ((n : Int) + (sh : Nat))
        let n := t
        let i := i >>> sh
        pure (n, i)) else (do pure (n, i)) : Outcome (Nat × Nat))) = .ok (msbStep mask sh (n, i)) := by
  unfold msbStep
  have hp : plainU8 prof ((n : Int) + (sh : Nat)) = .ok (n + sh) := by
    unfold plainU8
    have : 0 ≤ (n : Int) + (sh : Nat) ∧ (n : Int) + (sh : Nat) < 256 := by omega
    simp only [this, and_self, if_true]
    congr 1
  by_cases hc : (i &&& mask) ≠ 0
  · have h1 : ((i &&& mask) != 0) = true := by simpa using hc
    simp only [hc, ne_eq, not_false_eq_true, decide_true, if_true, hp, bind_ok', pure_eq', h1]
  · have h0 : (i &&& mask) = 0 := by simpa using hc
    simp [h0]

theorem msbStep_snd_le (mask sh : Nat) (st : Nat × Nat) : (msbStep mask sh st).2 ≤ st.2 := by
  unfold msbStep
  split
  · exact Nat.shiftRight_le _ _
  · exact Nat.le_refl _

theorem msbStep_fst_le (mask sh : Nat) (st : Nat × Nat) : (msbStep mask sh st).1 ≤ st.1 + sh := by
  unfold msbStep
  split <;> simp

theorem u128_msb_eq (prof : Profile) (i : Nat) (hi : i < 340282366920938463463374607431768211456) :
    Gen.K.u128_msb prof i = u128Msb prof i := by
  unfold Gen.K.u128_msb u128Msb
  have hb : decide (i ≠ 0) = (i != 0) := by
    by_cases h : i = 0 <;> simp [h]
  rw [hb]
  cases debugAssert prof (i != 0) with
  | panic k => rfl
  | ok u =>
    simp only [bind_ok']
    -- step 1 (`n = 64`)
    have m1 : (340282366920938463444927863358058659840 : Nat) = 0xffffffffffffffff <<< 64 := by decide
    have s1 : ((if decide ((i &&& 340282366920938463444927863358058659840) ≠ 0) = true then (do
          let n := 64
          let i := i >>> 64
          pure (n, i)) else (do pure (0, i)) : Outcome (Nat × Nat))) =
        .ok (msbStep (0xffffffffffffffff <<< 64) 64 (0, i)) := by
      unfold msbStep
      rw [← m1]
      by_cases hc : (i &&& 340282366920938463444927863358058659840) ≠ 0
      · have h1 : ((i &&& 340282366920938463444927863358058659840) != 0) = true := by simpa using hc
        simp only [hc, ne_eq, not_false_eq_true, decide_true, if_true, pure_eq', h1]
      · have h0 : (i &&& 340282366920938463444927863358058659840) = 0 := by simpa using hc
        simp [h0]
    rw [s1]
    simp only [bind_ok']
    generalize hst1 : msbStep (0xffffffffffffffff <<< 64) 64 (0, i) = st1
    have b1 : st1.1 ≤ 64 := by rw [← hst1]; exact msbStep_fst_le _ _ _
    have l1 : st1.2 < 18446744073709551616 := by
      rw [← hst1]; unfold msbStep
      by_cases hc : ((i &&& (0xffffffffffffffff <<< 64)) != 0) = true
      · simp only [hc, if_true]; rw [Nat.shiftRight_eq_div_pow]; omega
      · simp only [hc, Bool.false_eq_true, if_false]
        have h0 : i &&& (0xffffffffffffffff <<< 64) = 0 := by simpa using hc
        -- no bit at position 64 or above
        have : i / 18446744073709551616 = 0 := by
          have e : (0xffffffffffffffff <<< 64 : Nat) = (2 ^ 64 - 1) * 2 ^ 64 := by decide
          have hshift : (i &&& (0xffffffffffffffff <<< 64)) >>> 64 = (i >>> 64) &&& 0xffffffffffffffff := by
            rw [Nat.shiftRight_and_distrib]; rfl
          rw [h0] at hshift
          have hm : (i >>> 64) &&& 0xffffffffffffffff = (i >>> 64) % 2 ^ 64 := Nat.and_two_pow_sub_one_eq_mod _ 64
          rw [hm, Nat.shiftRight_eq_div_pow] at hshift
          have : i / 2 ^ 64 < 2 ^ 64 := by omega
          omega
        omega
    obtain ⟨n1, i1⟩ := st1
    simp only [] at b1 l1 ⊢
    rw [show ((n1 : Int) + 32) = ((n1 : Int) + ((32 : Nat) : Int)) from rfl, msb_step prof _ 32 n1 i1 (by omega)]
    simp only [bind_ok']
    generalize hst2 : msbStep 18446744069414584320 32 (n1, i1) = st2
    have b2 : st2.1 ≤ n1 + 32 := by rw [← hst2]; exact msbStep_fst_le _ _ _
    have l2 : st2.2 ≤ i1 := by rw [← hst2]; exact msbStep_snd_le _ _ _
    obtain ⟨n2, i2⟩ := st2
    simp only [] at b2 l2 ⊢
    rw [show ((n2 : Int) + 16) = ((n2 : Int) + ((16 : Nat) : Int)) from rfl, msb_step prof _ 16 n2 i2 (by omega)]
    simp only [bind_ok']
    generalize hst3 : msbStep 4294901760 16 (n2, i2) = st3
    have b3 : st3.1 ≤ n2 + 16 := by rw [← hst3]; exact msbStep_fst_le _ _ _
    have l3 : st3.2 ≤ i2 := by rw [← hst3]; exact msbStep_snd_le _ _ _
    obtain ⟨n3, i3⟩ := st3
    simp only [] at b3 l3 ⊢
    rw [show ((n3 : Int) + 8) = ((n3 : Int) + ((8 : Nat) : Int)) from rfl, msb_step prof _ 8 n3 i3 (by omega)]
    simp only [bind_ok']
    generalize hst4 : msbStep 65280 8 (n3, i3) = st4
    have b4 : st4.1 ≤ n3 + 8 := by rw [← hst4]; exact msbStep_fst_le _ _ _
    have l4 : st4.2 ≤ i3 := by rw [← hst4]; exact msbStep_snd_le _ _ _
    obtain ⟨n4, i4⟩ := st4
    simp only [] at b4 l4 ⊢
    rw [show ((n4 : Int) + 4) = ((n4 : Int) + ((4 : Nat) : Int)) from rfl, msb_step prof _ 4 n4 i4 (by omega)]
    simp only [bind_ok']
    have e32 : (0xffffffff <<< 32 : Nat) = 18446744069414584320 := by decide
    have e16 : (0xffff <<< 16 : Nat) = 4294901760 := by decide
    have e8 : (0xff <<< 8 : Nat) = 65280 := by decide
    have e4 : (0xf0 : Nat) = 240 := by decide
    generalize hst5 : msbStep 240 4 (n4, i4) = st5
    have l5 : st5.2 ≤ i4 := by rw [← hst5]; exact msbStep_snd_le _ _ _
    obtain ⟨n5, i5⟩ := st5
    simp only [] at l5 ⊢
    rw [wrapU_id 64 i5 (by omega)]
    unfold Rt.index
    cases Gen.MSB_IDX_MAP[i5]? with
    | none => rfl
    | some m =>
      simp only [bind_ok']
      rw [show ((n5 : Int) + (m : Int)) = (((n5 + m : Nat)) : Int) from (Int.natCast_add n5 m).symm]
      cases plainU8 prof ((n5 + m : Nat) : Int) with
      | panic k => rfl
      | ok s => rfl

end Fpdec.Kernels
