import Fpdec.Kernels.DivRounded

/-! The quotient returned by the two wide floor divisions of the model always fits an i128 (whatever the arguments): it is either
a checked 128-bit magnitude or the result of a plain i128 operation.  This discharges the hypothesis of the `*_rounded` ties. -/

namespace Fpdec.Kernels
open Fpdec Fpdec.Model

theorem nat_fits (n : Nat) (h : ¬ ((n : Int) > I128_MAX)) : fitsI128 (n : Int) = true := by
  rw [fitsI128_iff]; unfold I128_MIN I128_MAX at *; omega

theorem neg_fits (prof : Profile) (x v : Int) (h : negI128 prof x = .ok v) : fitsI128 v = true :=
  plainI128_fits prof (-x) v h

theorem shifted_quot_fits (prof : Profile) (x : Int) (p : Nat) (y q r : Int)
    (h : i128ShiftedDivModFloor prof x p y = .ok (some (q, r))) : fitsI128 q = true := by
  unfold i128ShiftedDivModFloor at h
  obtain ⟨t, _, h⟩ := bind_inv h
  obtain ⟨⟨xh, xl⟩, _, h⟩ := bind_inv h
  obtain ⟨⟨xh', xl', r'⟩, _, h⟩ := bind_inv h
  simp only [] at h
  by_cases hc : xh' ≠ 0 ∨ (xl' : Int) > I128_MAX
  · rw [if_pos hc] at h; cases h
  · rw [if_neg hc] at h
    have hxl : fitsI128 (xl' : Int) = true := nat_fits xl' (fun hh => hc (Or.inr hh))
    by_cases hx : x < 0
    · rw [if_pos hx] at h
      by_cases hy : y < 0
      · rw [if_pos hy] at h
        obtain ⟨r1, _, h⟩ := bind_inv h
        have h1 := (Prod.mk.inj (Option.some.inj (Outcome.ok.inj h))).1
        rw [← h1]; exact hxl
      · rw [if_neg hy] at h
        by_cases hr : IntTy.i128.cast (r' : Int) = 0
        · rw [if_pos hr] at h
          obtain ⟨q1, hq1, h⟩ := bind_inv h
          have h1 := (Prod.mk.inj (Option.some.inj (Outcome.ok.inj h))).1
          rw [← h1]; exact neg_fits prof _ _ hq1
        · rw [if_neg hr] at h
          obtain ⟨q1, _, h⟩ := bind_inv h
          obtain ⟨q2, hq2, h⟩ := bind_inv h
          obtain ⟨r2, _, h⟩ := bind_inv h
          have h1 := (Prod.mk.inj (Option.some.inj (Outcome.ok.inj h))).1
          rw [← h1]; exact plainI128_fits prof _ _ hq2
    · rw [if_neg hx] at h
      by_cases hy : y < 0
      · rw [if_pos hy] at h
        by_cases hr : IntTy.i128.cast (r' : Int) = 0
        · rw [if_pos hr] at h
          obtain ⟨q1, hq1, h⟩ := bind_inv h
          have h1 := (Prod.mk.inj (Option.some.inj (Outcome.ok.inj h))).1
          rw [← h1]; exact neg_fits prof _ _ hq1
        · rw [if_neg hr] at h
          obtain ⟨q1, _, h⟩ := bind_inv h
          obtain ⟨q2, hq2, h⟩ := bind_inv h
          obtain ⟨r2, _, h⟩ := bind_inv h
          have h1 := (Prod.mk.inj (Option.some.inj (Outcome.ok.inj h))).1
          rw [← h1]; exact plainI128_fits prof _ _ hq2
      · rw [if_neg hy] at h
        have h1 := (Prod.mk.inj (Option.some.inj (Outcome.ok.inj h))).1
        rw [← h1]; exact hxl

theorem mul_quot_fits (prof : Profile) (x1 x2 y q r : Int)
    (h : i256DivModFloor prof x1 x2 y = .ok (some (q, r))) : fitsI128 q = true := by
  unfold i256DivModFloor at h
  obtain ⟨_, _, h⟩ := bind_inv h
  obtain ⟨⟨xh, xl⟩, _, h⟩ := bind_inv h
  obtain ⟨⟨xh', xl', r'⟩, _, h⟩ := bind_inv h
  simp only [] at h
  by_cases hc : xh' ≠ 0 ∨ (xl' : Int) > I128_MAX
  · rw [if_pos hc] at h; cases h
  · rw [if_neg hc] at h
    have hxl : fitsI128 (xl' : Int) = true := nat_fits xl' (fun hh => hc (Or.inr hh))
    by_cases hs : (decide (x1 < 0) != decide (x2 < 0)) = true
    · rw [if_pos hs] at h
      by_cases hr : IntTy.i128.cast (r' : Int) = 0
      · rw [if_pos hr] at h
        obtain ⟨q1, hq1, h⟩ := bind_inv h
        have h1 := (Prod.mk.inj (Option.some.inj (Outcome.ok.inj h))).1
        rw [← h1]; exact neg_fits prof _ _ hq1
      · rw [if_neg hr] at h
        obtain ⟨q1, _, h⟩ := bind_inv h
        obtain ⟨q2, hq2, h⟩ := bind_inv h
        obtain ⟨r2, _, h⟩ := bind_inv h
        have h1 := (Prod.mk.inj (Option.some.inj (Outcome.ok.inj h))).1
        rw [← h1]; exact plainI128_fits prof _ _ hq2
    · rw [if_neg hs] at h
      have h1 := (Prod.mk.inj (Option.some.inj (Outcome.ok.inj h))).1
      rw [← h1]; exact hxl

/-- unconditional forms of the `*_rounded` ties -/
theorem i128_shifted_div_rounded_eq' (prof : Profile) (tm : Mode) (a : Int) (p : Nat) (b : Int) (mode : Option Mode) :
    Gen.K.i128_shifted_div_rounded prof tm a p b mode = i128ShiftedDivRounded prof tm a p b mode :=
  i128_shifted_div_rounded_eq prof tm a p b mode (fun a' b' q r h => shifted_quot_fits prof a' p b' q r h)

theorem i128_mul_div_ten_pow_rounded_eq' (prof : Profile) (tm : Mode) (x y : Int) (p : Nat) (mode : Option Mode) :
    Gen.K.i128_mul_div_ten_pow_rounded prof tm x y p mode = i128MulDivTenPowRounded prof tm x y p mode :=
  i128_mul_div_ten_pow_rounded_eq prof tm x y p mode (fun d q r h => mul_quot_fits prof x y d q r h)

end Fpdec.Kernels
