import Fpdec.Gen.KIntoFloat
import Fpdec.Kernels.FloatDecode
import Fpdec.Kernels.WideSpecial
import Fpdec.Model.Float

/-! Tie: the generated translation of `Float::from_decimal` (src/into_float.rs, instantiated for `f64`: `FRACTION_BITS = 52`,
`EXP_BIAS = 1023`, `BITS = 64`) equals the hand-written model `fromDecimal prof .f64`. -/

namespace Fpdec.Kernels
open Fpdec Fpdec.Model

theorem lz_le (v : Nat) : leadingZeros 128 v ≤ 128 := by
  unfold leadingZeros; omega

theorem plainU32_small (prof : Profile) (x : Int) (n : Nat) (h : x = (n : Int)) (hn : n < 4294967296) :
    Rt.plainU 32 prof x = .ok n := by
  subst h; exact plainU32_ok prof n hn

theorem sat32_sub (a b : Nat) (ha : a < 4294967296) : Rt.sat 32 ((a : Int) - (b : Int)) = a - b := by
  unfold Rt.sat
  have e : (2 : Int) ^ 32 = 4294967296 := by decide
  rw [e]
  by_cases h : (a : Int) - b < 0
  · simp only [h, if_true]; omega
  · simp only [h, if_false]
    have : (a : Int) - b < 4294967296 := by omega
    simp only [this, if_true]; omega

theorem shl128_eq (prof : Profile) (x s : Nat) : Rt.shl 128 prof x s = shlU128 prof x s := by
  unfold Rt.shl shlU128 wrapU128
  by_cases h : s ≥ 128
  · simp only [h, if_true]
  · simp only [h, if_false]

theorem n_signif_bits_eq (prof : Profile) (v : Nat) : Gen.K.n_signif_bits prof v = .ok (nSignifBits v) := by
  unfold Gen.K.n_signif_bits nSignifBits
  have := lz_le v
  rw [plainU32_small prof _ (128 - leadingZeros 128 v) (by omega) (by omega)]

theorem u64_plain_eq (prof : Profile) (x : Int) :
    Rt.plainU 64 prof x = Int.toNat <$> IntTy.u64.plain prof x := by
  unfold Rt.plainU IntTy.plain IntTy.fits IntTy.min IntTy.max IntTy.wrap IntTy.u64
  simp only [Bool.false_eq_true, if_false]
  have e : (2 : Int) ^ 64 = 18446744073709551616 := by decide
  rw [e]
  by_cases h : 0 ≤ x ∧ x < 18446744073709551616
  · have h' : (decide (0 ≤ x) && decide (x ≤ 18446744073709551616 - 1)) = true := by
      simp only [Bool.and_eq_true, decide_eq_true_eq]; omega
    have h0 : decide (0 ≤ x) = true := by simp [h.1]
    have h1 : decide (x ≤ 18446744073709551616 - 1) = true := by simp only [decide_eq_true_eq]; omega
    have h2 : x ≤ 18446744073709551615 := by omega
    simp [h, h2]
  · have h' : (decide (0 ≤ x) && decide (x ≤ 18446744073709551616 - 1)) = false := by
      cases hh : (decide (0 ≤ x) && decide (x ≤ 18446744073709551616 - 1)) with
      | false => rfl
      | true =>
        simp only [Bool.and_eq_true, decide_eq_true_eq] at hh
        exact absurd ⟨hh.1, by omega⟩ h
    simp only [h, if_false, h', Bool.false_eq_true]
    cases prof.oc <;> rfl

theorem i32_cast_small (x : Int) (h0 : 0 ≤ x) (h1 : x < 2147483648) : IntTy.i32.cast x = x := by
  unfold IntTy.cast IntTy.wrap IntTy.i32
  simp only [if_true]
  have e1 : (2 : Int) ^ (32 - 1) = 2147483648 := by decide
  have e2 : (2 : Int) ^ 32 = 4294967296 := by decide
  rw [e1, e2]; omega

theorem u64_plain_range (prof : Profile) (x v : Int) (h : IntTy.u64.plain prof x = .ok v) : 0 ≤ v ∧ v < 18446744073709551616 := by
  unfold IntTy.plain IntTy.fits IntTy.min IntTy.max IntTy.wrap IntTy.u64 at h
  simp only [Bool.false_eq_true, if_false] at h
  have e : (2 : Int) ^ 64 = 18446744073709551616 := by decide
  rw [e] at h
  by_cases hf : (decide (0 ≤ x) && decide (x ≤ 18446744073709551616 - 1)) = true
  · simp only [hf, if_true] at h
    have := Outcome.ok.inj h
    simp only [Bool.and_eq_true, decide_eq_true_eq] at hf
    omega
  · simp only [hf, Bool.false_eq_true, if_false] at h
    by_cases ho : prof.oc = true
    · simp [ho] at h
    · simp only [ho, Bool.false_eq_true, if_false] at h
      have := Outcome.ok.inj h
      omega

theorem shl64_small (prof : Profile) (x n : Nat) (h : n < 64) : Rt.shl 64 prof x n = .ok ((x <<< n) % 2 ^ 64) := by
  unfold Rt.shl
  have : ¬ n ≥ 64 := by omega
  simp only [this, if_false]

theorem shl32_small (prof : Profile) (x n : Nat) (h : n < 32) : Rt.shl 32 prof x n = .ok ((x <<< n) % 2 ^ 32) := by
  unfold Rt.shl
  have : ¬ n ≥ 32 := by omega
  simp only [this, if_false]

theorem f64_from_decimal_eq (prof : Profile) (d : Dec) :
    Gen.K.f64_from_decimal prof d = fromDecimal prof Spec.FloatFmt.f64 d := by
  unfold Gen.K.f64_from_decimal fromDecimal
  have hfb : Spec.FloatFmt.f64.fracBits = 52 := rfl
  have e55 : Rt.plainU 32 prof ((52 : Int) + 3) = .ok 55 := plainU32_small prof _ 55 (by decide) (by decide)
  rw [e55, bind_ok']
  simp only [hfb, Gen.FLT_EXTRA_BITS]
  rw [show (((10 : Nat) : Int) ^ d.nfrac) = ((10 : Int) ^ d.nfrac) from rfl]
  refine bind_congr _ (fun den => ?_)
  have hn := lz_le d.coeff.natAbs
  have hd := lz_le den
  generalize leadingZeros 128 d.coeff.natAbs = nlz at hn ⊢
  generalize leadingZeros 128 den = dlz at hd ⊢
  rw [plainU32_small prof _ (nlz + 55) (by rw [Int.natCast_add]) (by omega), bind_ok']
  rw [sat32_sub (nlz + 55) dlz (by omega), sat32_sub dlz nlz (by omega), sat32_sub (dlz - nlz) 55 (by omega)]
  rw [shl128_eq, shl128_eq]
  refine bind_congr _ (fun num' => ?_)
  refine bind_congr _ (fun den' => ?_)
  by_cases hz : den' = 0
  · subst hz
    rw [if_pos rfl]
    rfl
  · rw [if_neg hz, divU_eq _ _ hz, bind_ok', remU_eq _ _ hz, bind_ok', n_signif_bits_eq, bind_ok']
    generalize num' / den' = q
    generalize num' % den' = r
    have hadj : (if decide (nSignifBits q = 55) = true then 1 else 0 : Nat) = (if nSignifBits q = 52 + 3 then 1 else 0) := by
      by_cases h : nSignifBits q = 55 <;> simp [h]
    rw [hadj]
    generalize hav : (if nSignifBits q = 52 + 3 then 1 else 0 : Nat) = a
    have ha : a ≤ 1 := by rw [← hav]; split <;> omega
    unfold Rt.index
    cases hmask : Gen.FLT_MASK_EXTRA_BITS[a]? with
    | none => rfl
    | some mask =>
      rw [bind_ok']
      simp only []
      have hmask7 : mask ≤ 7 := by
        have : a = 0 ∨ a = 1 := by omega
        rcases this with h | h <;> subst h
        · have : Gen.FLT_MASK_EXTRA_BITS[0]? = some 7 := rfl
          rw [this] at hmask; injection hmask with hmask; omega
        · have : Gen.FLT_MASK_EXTRA_BITS[1]? = some 3 := rfl
          rw [this] at hmask; injection hmask with hmask; omega
      have hm0 : q &&& mask ≤ 7 := Nat.le_trans Nat.and_le_right hmask7
      have hwa : Rt.wrapU 32 a = a := wrapU_id 32 a (by omega)
      have hwm : Rt.wrapU 32 (q &&& mask) = (q &&& mask) % 2 ^ 32 := rfl
      have p32 : (2 : Nat) ^ 32 = 4294967296 := by decide
      have p64 : (2 : Nat) ^ 64 = 18446744073709551616 := by decide
      have hmm : (q &&& mask) % 2 ^ 32 = q &&& mask := Nat.mod_eq_of_lt (by omega)
      have hsh : (((q &&& mask) <<< a) % 2 ^ 32) = (q &&& mask) <<< a := by
        apply Nat.mod_eq_of_lt
        rw [Nat.shiftLeft_eq]
        have : 2 ^ a ≤ 2 := by
          have : a = 0 ∨ a = 1 := by omega
          rcases this with h | h <;> subst h <;> decide
        have : (q &&& mask) * 2 ^ a ≤ 7 * 2 := Nat.mul_le_mul hm0 this
        omega
      rw [hwa, hwm, hmm, shl32_small prof _ a (by omega), hsh, bind_ok']
      rw [plainU32_small prof ((3 : Int) - (a : Int)) (3 - a) (by omega) (by omega), bind_ok',
        shr128_small prof q (3 - a) (by omega), bind_ok']
      rw [i32_cast_small _ (by omega) (by omega), i32_cast_small _ (by omega) (by omega), i32_cast_small _ (by omega) (by omega)]
      have hbias : Spec.FloatFmt.f64.bias = 1023 := by decide
      rw [hbias]
      refine bind_congr _ (fun e0 => ?_)
      refine bind_congr _ (fun e0' => ?_)
      refine bind_congr _ (fun e1 => ?_)
      refine bind_congr _ (fun e2 => ?_)
      rw [shl64_small prof _ 52 (by decide), bind_ok', u64_plain_eq]
      have hw64 : Rt.wrapU 64 (q >>> (3 - a)) = q >>> (3 - a) % 2 ^ 64 := rfl
      rw [hw64]
      cases hb1 : IntTy.u64.plain prof (((q >>> (3 - a) % 2 ^ 64 : Nat) : Int) + (((IntTy.u64.cast e2).toNat <<< 52 % 2 ^ 64 : Nat) : Int)) with
      | panic k => rfl
      | ok b1 =>
        obtain ⟨hb1lo, hb1hi⟩ := u64_plain_range prof _ _ hb1
        rw [map_ok', bind_ok', bind_ok', u64_plain_eq]
        have hcast : ((b1.toNat : Nat) : Int) = b1 := Int.toNat_of_nonneg hb1lo
        rw [hcast]
        have hr : (if decide (r ≠ 0) = true then 1 else 0 : Nat) = (if r ≠ 0 then 1 else 0) := by
          by_cases h : r ≠ 0 <;> simp [h]
        have hs1 : Rt.wrapU 32 ((q >>> (3 - a) % 2 ^ 64) &&& 1) = (q >>> (3 - a) % 2 ^ 64) % 2 := by
          rw [Nat.and_one_is_mod]
          exact wrapU_id 32 _ (by omega)
        rw [hr, hs1]
        unfold Gen.FLT_TIE
        generalize hX : ((q &&& mask) <<< a ||| if r ≠ 0 then 1 else 0) = X
        generalize hS : q >>> (3 - a) % 2 ^ 64 = S
        have hinc : (if (decide (X > 4) || decide (X = 4) && decide (S % 2 = 1)) = true then (1 : Int) else 0) =
            ((if X > 4 ∨ X = 4 ∧ S % 2 = 1 then 1 else 0 : Nat) : Int) := by
          by_cases h : X > 4 ∨ X = 4 ∧ S % 2 = 1
          · have hb : (decide (X > 4) || decide (X = 4) && decide (S % 2 = 1)) = true := by simpa using h
            simp only [hb, h, if_true]; rfl
          · have hb : (decide (X > 4) || decide (X = 4) && decide (S % 2 = 1)) = false := by simpa using h
            simp only [hb, h, Bool.false_eq_true, if_false]; rfl
        rw [hinc]
        cases hb2 : IntTy.u64.plain prof (b1 + ((if X > 4 ∨ X = 4 ∧ S % 2 = 1 then 1 else 0 : Nat) : Int)) with
        | panic k => rfl
        | ok b2 =>
          obtain ⟨hb2lo, hb2hi⟩ := u64_plain_range prof _ _ hb2
          rw [map_ok', bind_ok', bind_ok']
          rw [plainU32_small prof ((64 : Int) - 1) 63 (by decide) (by decide), bind_ok', shl64_small prof _ 63 (by decide), bind_ok']
          have hsg : (if decide (d.coeff < 0) = true then 1 else 0 : Nat) = (if d.coeff < 0 then 1 else 0) := by
            by_cases h : d.coeff < 0 <;> simp [h]
          rw [hsg]
          have hbits : Spec.FloatFmt.f64.bits = 64 := rfl
          rw [hbits]
          have hsl : ((if d.coeff < 0 then 1 else 0 : Nat) <<< 63) % 2 ^ 64 = (if d.coeff < 0 then 1 else 0 : Nat) <<< 63 := by
            apply Nat.mod_eq_of_lt
            split <;> decide
          rw [hsl]
          have hlt : b2.toNat ||| (if d.coeff < 0 then 1 else 0 : Nat) <<< (64 - 1) < 2 ^ 64 := by
            apply Nat.or_lt_two_pow
            · rw [p64]; omega
            · split <;> decide
          rw [Nat.mod_eq_of_lt hlt]





theorem f32_from_decimal_eq (prof : Profile) (d : Dec) :
    Gen.K.f32_from_decimal prof d = fromDecimal prof Spec.FloatFmt.f32 d := by
  unfold Gen.K.f32_from_decimal fromDecimal
  have hfb : Spec.FloatFmt.f32.fracBits = 23 := rfl
  have e55 : Rt.plainU 32 prof ((23 : Int) + 3) = .ok 26 := plainU32_small prof _ 26 (by decide) (by decide)
  rw [e55, bind_ok']
  simp only [hfb, Gen.FLT_EXTRA_BITS]
  rw [show (((10 : Nat) : Int) ^ d.nfrac) = ((10 : Int) ^ d.nfrac) from rfl]
  refine bind_congr _ (fun den => ?_)
  have hn := lz_le d.coeff.natAbs
  have hd := lz_le den
  generalize leadingZeros 128 d.coeff.natAbs = nlz at hn ⊢
  generalize leadingZeros 128 den = dlz at hd ⊢
  rw [plainU32_small prof _ (nlz + 26) (by rw [Int.natCast_add]) (by omega), bind_ok']
  rw [sat32_sub (nlz + 26) dlz (by omega), sat32_sub dlz nlz (by omega), sat32_sub (dlz - nlz) 26 (by omega)]
  rw [shl128_eq, shl128_eq]
  refine bind_congr _ (fun num' => ?_)
  refine bind_congr _ (fun den' => ?_)
  by_cases hz : den' = 0
  · subst hz
    rw [if_pos rfl]
    rfl
  · rw [if_neg hz, divU_eq _ _ hz, bind_ok', remU_eq _ _ hz, bind_ok', n_signif_bits_eq, bind_ok']
    generalize num' / den' = q
    generalize num' % den' = r
    have hadj : (if decide (nSignifBits q = 26) = true then 1 else 0 : Nat) = (if nSignifBits q = 23 + 3 then 1 else 0) := by
      by_cases h : nSignifBits q = 26 <;> simp [h]
    rw [hadj]
    generalize hav : (if nSignifBits q = 23 + 3 then 1 else 0 : Nat) = a
    have ha : a ≤ 1 := by rw [← hav]; split <;> omega
    unfold Rt.index
    cases hmask : Gen.FLT_MASK_EXTRA_BITS[a]? with
    | none => rfl
    | some mask =>
      rw [bind_ok']
      simp only []
      have hmask7 : mask ≤ 7 := by
        have : a = 0 ∨ a = 1 := by omega
        rcases this with h | h <;> subst h
        · have : Gen.FLT_MASK_EXTRA_BITS[0]? = some 7 := rfl
          rw [this] at hmask; injection hmask with hmask; omega
        · have : Gen.FLT_MASK_EXTRA_BITS[1]? = some 3 := rfl
          rw [this] at hmask; injection hmask with hmask; omega
      have hm0 : q &&& mask ≤ 7 := Nat.le_trans Nat.and_le_right hmask7
      have hwa : Rt.wrapU 32 a = a := wrapU_id 32 a (by omega)
      have hwm : Rt.wrapU 32 (q &&& mask) = (q &&& mask) % 2 ^ 32 := rfl
      have p32 : (2 : Nat) ^ 32 = 4294967296 := by decide
      have p64 : (2 : Nat) ^ 64 = 18446744073709551616 := by decide
      have hmm : (q &&& mask) % 2 ^ 32 = q &&& mask := Nat.mod_eq_of_lt (by omega)
      have hsh : (((q &&& mask) <<< a) % 2 ^ 32) = (q &&& mask) <<< a := by
        apply Nat.mod_eq_of_lt
        rw [Nat.shiftLeft_eq]
        have : 2 ^ a ≤ 2 := by
          have : a = 0 ∨ a = 1 := by omega
          rcases this with h | h <;> subst h <;> decide
        have : (q &&& mask) * 2 ^ a ≤ 7 * 2 := Nat.mul_le_mul hm0 this
        omega
      rw [hwa, hwm, hmm, shl32_small prof _ a (by omega), hsh, bind_ok']
      rw [plainU32_small prof ((3 : Int) - (a : Int)) (3 - a) (by omega) (by omega), bind_ok',
        shr128_small prof q (3 - a) (by omega), bind_ok']
      rw [i32_cast_small _ (by omega) (by omega), i32_cast_small _ (by omega) (by omega), i32_cast_small _ (by omega) (by omega)]
      have hbias : Spec.FloatFmt.f32.bias = 127 := by decide
      rw [hbias]
      refine bind_congr _ (fun e0 => ?_)
      refine bind_congr _ (fun e0' => ?_)
      refine bind_congr _ (fun e1 => ?_)
      refine bind_congr _ (fun e2 => ?_)
      rw [shl64_small prof _ 23 (by decide), bind_ok', u64_plain_eq]
      have hw64 : Rt.wrapU 64 (q >>> (3 - a)) = q >>> (3 - a) % 2 ^ 64 := rfl
      rw [hw64]
      cases hb1 : IntTy.u64.plain prof (((q >>> (3 - a) % 2 ^ 64 : Nat) : Int) + (((IntTy.u64.cast e2).toNat <<< 23 % 2 ^ 64 : Nat) : Int)) with
      | panic k => rfl
      | ok b1 =>
        obtain ⟨hb1lo, hb1hi⟩ := u64_plain_range prof _ _ hb1
        rw [map_ok', bind_ok', bind_ok', u64_plain_eq]
        have hcast : ((b1.toNat : Nat) : Int) = b1 := Int.toNat_of_nonneg hb1lo
        rw [hcast]
        have hr : (if decide (r ≠ 0) = true then 1 else 0 : Nat) = (if r ≠ 0 then 1 else 0) := by
          by_cases h : r ≠ 0 <;> simp [h]
        have hs1 : Rt.wrapU 32 ((q >>> (3 - a) % 2 ^ 64) &&& 1) = (q >>> (3 - a) % 2 ^ 64) % 2 := by
          rw [Nat.and_one_is_mod]
          exact wrapU_id 32 _ (by omega)
        rw [hr, hs1]
        unfold Gen.FLT_TIE
        generalize hX : ((q &&& mask) <<< a ||| if r ≠ 0 then 1 else 0) = X
        generalize hS : q >>> (3 - a) % 2 ^ 64 = S
        have hinc : (if (decide (X > 4) || decide (X = 4) && decide (S % 2 = 1)) = true then (1 : Int) else 0) =
            ((if X > 4 ∨ X = 4 ∧ S % 2 = 1 then 1 else 0 : Nat) : Int) := by
          by_cases h : X > 4 ∨ X = 4 ∧ S % 2 = 1
          · have hb : (decide (X > 4) || decide (X = 4) && decide (S % 2 = 1)) = true := by simpa using h
            simp only [hb, h, if_true]; rfl
          · have hb : (decide (X > 4) || decide (X = 4) && decide (S % 2 = 1)) = false := by simpa using h
            simp only [hb, h, Bool.false_eq_true, if_false]; rfl
        rw [hinc]
        cases hb2 : IntTy.u64.plain prof (b1 + ((if X > 4 ∨ X = 4 ∧ S % 2 = 1 then 1 else 0 : Nat) : Int)) with
        | panic k => rfl
        | ok b2 =>
          obtain ⟨hb2lo, hb2hi⟩ := u64_plain_range prof _ _ hb2
          rw [map_ok', bind_ok', bind_ok']
          rw [plainU32_small prof ((32 : Int) - 1) 31 (by decide) (by decide), bind_ok', shl64_small prof _ 31 (by decide), bind_ok']
          have hsg : (if decide (d.coeff < 0) = true then 1 else 0 : Nat) = (if d.coeff < 0 then 1 else 0) := by
            by_cases h : d.coeff < 0 <;> simp [h]
          rw [hsg]
          have hbits : Spec.FloatFmt.f32.bits = 32 := rfl
          rw [hbits]
          have hsl : ((if d.coeff < 0 then 1 else 0 : Nat) <<< 31) % 2 ^ 64 = (if d.coeff < 0 then 1 else 0 : Nat) <<< 31 := by
            apply Nat.mod_eq_of_lt
            split <;> decide
          rw [hsl]
          rfl

end Fpdec.Kernels
