import Fpdec.Gen.KMagn
import Fpdec.Kernels.Log
import Fpdec.Model.Decimal

/-! Tie: `i128_magnitude` (fpdec-core/src/lib.rs), `Decimal::new_raw` and `Decimal::magnitude` (src/lib.rs) as translated equal
the hand-written model. -/

namespace Fpdec.Kernels
open Fpdec Fpdec.Model

theorem i128_magnitude_eq (prof : Profile) (i : Int) (h : I128_MIN ≤ i ∧ i ≤ I128_MAX) :
    Gen.K.i128_magnitude prof i = .ok (i128Magnitude i) := by
  unfold Gen.K.i128_magnitude i128Magnitude
  obtain ⟨h1, h2⟩ := h
  unfold I128_MIN at h1; unfold I128_MAX at h2
  rw [u128_eq prof i.natAbs (by omega)]
  rfl

theorem decimal_magnitude_eq (prof : Profile) (d : Dec) (h : I128_MIN ≤ d.coeff ∧ d.coeff ≤ I128_MAX) :
    Gen.K.decimal_magnitude prof d = magnitude prof d := by
  unfold Gen.K.decimal_magnitude magnitude
  by_cases hc : d.coeff = 0
  · simp [hc]
  · simp only [hc, decide_false, Bool.false_eq_true, if_false]
    rw [i128_magnitude_eq prof _ h, bind_ok']

/-- `Decimal::new_raw`: the only thing it does besides building the value is the debug assertion `n_frac_digits <= 18` -/
theorem decimal_new_raw_eq (prof : Profile) (c : Int) (n : Nat) :
    Gen.K.decimal_new_raw prof c n = (if prof.da = true ∧ ¬ n ≤ 18 then .panic .assert else .ok ⟨c, n⟩) := by
  unfold Gen.K.decimal_new_raw debugAssert Gen.MAX_N_FRAC_DIGITS
  by_cases hd : prof.da = true <;> by_cases hn : n ≤ 18 <;> simp [hd, hn] <;> rfl

end Fpdec.Kernels
