import Fpdec.Prim

/-!
# Behaviour of Rust's `std` that the model *assumes* (transcribed from the std documentation/source, validated
by the correspondence check, not verified): the `{:…}` flags and `Formatter::pad_integral`.
-/

namespace Fpdec.Std

/-- formatting flags of a `{:…}` placeholder -/
structure FmtSpec where
  fill : Nat := 32
  /-- 0 = unspecified, 1 = `<`, 2 = `^`, 3 = `>` -/
  align : Nat := 0
  plus : Bool := false
  zero : Bool := false
  width : Option Nat := none
  prec : Option Nat := none
deriving Repr, Inhabited

/-- `Formatter::pad_integral(is_nonnegative, "", buf)` -/
def padIntegral (f : FmtSpec) (nonneg : Bool) (buf : List Nat) : List Nat :=
  let sign : List Nat := if !nonneg then [45] else if f.plus then [43] else []
  let width := buf.length + sign.length
  match f.width with
  | none => sign ++ buf
  | some min =>
    if width ≥ min then sign ++ buf
    else if f.zero then
      sign ++ List.replicate (min - width) 48 ++ buf
    else
      let padding := min - width
      let (pre, post) :=
        match f.align with
        | 1 => (0, padding)
        | 2 => (padding / 2, (padding + 1) / 2)
        | _ => (padding, 0)
      List.replicate pre f.fill ++ sign ++ buf ++ List.replicate post f.fill


end Fpdec.Std
