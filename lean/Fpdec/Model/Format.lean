import Fpdec.Model.Decimal
import Fpdec.Std

/-!
# Model of `src/format.rs`

Strings are byte lists.  Rust's integer `Display` (`{}` of an `i128`), the zero-padding
`{:0width$}` and `Formatter::pad_integral` are *transcriptions of std's documented behaviour*
(modelled, not verified; validated by the correspondence check).
-/

namespace Fpdec.Model
open Fpdec Fpdec.Std

/-- decimal digits of a natural number, most significant first, as ASCII bytes -/
def decDigitsAux : Nat → Nat → List Nat → List Nat
  | 0, _, acc => acc
  | fuel + 1, n, acc =>
    let acc' := (48 + n % 10) :: acc
    if n / 10 = 0 then acc' else decDigitsAux fuel (n / 10) acc'

def decDigits (n : Nat) : List Nat := decDigitsAux (n + 1) n []

/-- `format!("{}", i)` for an `i128` -/
def fmtInt (i : Int) : List Nat :=
  if i < 0 then 45 :: decDigits i.natAbs else decDigits i.natAbs

/-- `format!("{:0width$}", n)` for a non-negative integer -/
def fmtZeroPad (n : Nat) (width : Nat) : List Nat :=
  let ds := decDigits n
  List.replicate (width - ds.length) 48 ++ ds

/-- `format!("{:0width$}", x)` for a signed integer: sign-aware zero padding (the sign comes first, zeros fill up to the width) -/
def fmtZeroPadInt (x : Int) (width : Nat) : List Nat :=
  if x < 0 then 45 :: (List.replicate (width - 1 - (decDigits x.natAbs).length) 48 ++ decDigits x.natAbs)
  else fmtZeroPad x.toNat width

/-- `impl From<Decimal> for String` -/
def toStringDec (prof : Profile) (d : Dec) : Outcome (List Nat) :=
  if d.nfrac = 0 then .ok (fmtInt d.coeff)
  else do
    let a ← plainI128 prof (if d.coeff < 0 then -d.coeff else d.coeff)
    let t ← tenPow d.nfrac
    let (int, frac) ← i128DivModFloor prof a t
    pure ((if d.coeff ≥ 0 then [] else [45]) ++ fmtInt int ++ [46] ++ fmtZeroPad frac.toNat d.nfrac)

/-- `impl Debug for Decimal`: `Dec!(…)` -/
def debugDec (prof : Profile) (d : Dec) : Outcome (List Nat) := do
  let s ← toStringDec prof d
  pure ([68, 101, 99, 33, 40] ++ s ++ [41])

/-- `impl Display for Decimal` -/
def display (prof : Profile) (tm : Mode) (f : FmtSpec) (d : Dec) : Outcome (List Nat) := do
  let prec : Nat := match f.prec with
    | some p => Nat.min p Gen.MAX_N_FRAC_DIGITS
    | none => d.nfrac
  let abs ← plainI128 prof (if d.coeff < 0 then -d.coeff else d.coeff)
  let tmp : List Nat ←
    if d.nfrac = 0 then
      if prec > 0 then pure (fmtInt abs ++ [46] ++ fmtZeroPad 0 prec)
      else pure (fmtInt abs)
    else do
      let (int, frac) ←
        match compare prec d.nfrac with
        | .eq => do
          let t ← tenPow d.nfrac
          i128DivModFloor prof abs t
        | .lt => do
          let t ← tenPow (d.nfrac - prec)
          let c ← i128DivRounded prof tm d.coeff t none
          let ca ← plainI128 prof (if c < 0 then -c else c)
          let t2 ← tenPow prec
          i128DivModFloor prof ca t2
        | .gt => do
          let t ← tenPow d.nfrac
          let (int, frac) ← i128DivModFloor prof abs t
          let t2 ← tenPow (prec - d.nfrac)
          let fr ← plainI128 prof (frac * t2)
          pure (int, fr)
      if prec > 0 then pure (fmtInt int ++ [46] ++ fmtZeroPad frac.toNat prec)
      else pure (fmtInt int)
  pure (padIntegral f (decide (d.coeff ≥ 0)) tmp)

end Fpdec.Model
