import Fpdec.Model.Core

/-!
# Model of `fpdec-core/src/rounding.rs`

The per-thread default mode is an explicit argument `tm` ("thread mode"): every function that
the Rust code calls with `mode = None` reads `RoundingMode::default()`, i.e. `tm`.
-/

namespace Fpdec.Model
open Fpdec

/-- `round_quot` (after the D12 repair: `quot.checked_add(1)`), `rem`, `divisor` as `u128`.
    `rem << 1` drops shifted-out bits without a check. -/
def roundQuot (tm : Mode) (quot : Int) (rem divisor : Nat) (mode : Option Mode) : Option Int :=
  if rem = 0 then some quot else
  let mode := match mode with
    | none => tm
    | some m => m
  let remDoubled := wrapU128 (rem <<< 1)
  match mode with
  | .r05up =>
    -- `(quot + 1) % 5` is only evaluated for `quot < 0`, so the plain `+` cannot overflow
    if (quot ≥ 0 ∧ quot.tmod 5 = 0) ∨ (quot < 0 ∧ (quot + 1).tmod 5 ≠ 0) then checkedI128 (quot + 1)
    else some quot
  | .ceil => checkedI128 (quot + 1)
  | .down => if quot < 0 then checkedI128 (quot + 1) else some quot
  | .floor => some quot
  | .hdown =>
    if remDoubled > divisor ∨ (remDoubled = divisor ∧ quot < 0) then checkedI128 (quot + 1) else some quot
  | .heven =>
    if remDoubled > divisor ∨ (remDoubled = divisor ∧ quot.tmod 2 ≠ 0) then checkedI128 (quot + 1)
    else some quot
  | .hup =>
    if remDoubled > divisor ∨ (remDoubled = divisor ∧ quot ≥ 0) then checkedI128 (quot + 1) else some quot
  | .up => if quot ≥ 0 then checkedI128 (quot + 1) else some quot

/-- `i128_div_rounded` (after the D13 repair: floor division by the signed divisor, no operand is negated) -/
def i128DivRounded (prof : Profile) (tm : Mode) (divident divisor : Int) (mode : Option Mode) :
    Outcome Int := do
  let (quot, rem) ← i128DivModFloor prof divident divisor
  match roundQuot tm quot rem.natAbs divisor.natAbs mode with
  | some q => pure q
  | none => .panic .unwrap

/-- `i128_shifted_div_rounded` (after the D13 repair) -/
def i128ShiftedDivRounded (prof : Profile) (tm : Mode) (divident : Int) (p : Nat) (divisor : Int)
    (mode : Option Mode) : Outcome (Option Int) := do
  match ← i128ShiftedDivModFloor prof divident p divisor with
  | none => pure none
  | some (quot, rem) =>
    pure (roundQuot tm quot rem.natAbs divisor.natAbs mode)

/-- `i128_mul_div_ten_pow_rounded` -/
def i128MulDivTenPowRounded (prof : Profile) (tm : Mode) (x y : Int) (p : Nat) (mode : Option Mode) :
    Outcome (Option Int) := do
  let divisor ← tenPow p
  match ← i256DivModFloor prof x y divisor with
  | none => pure none
  | some (quot, rem) =>
    pure (roundQuot tm quot (IntTy.u128.cast rem).toNat (IntTy.u128.cast divisor).toNat mode)

end Fpdec.Model
