import Fpdec.Model.Decimal

/-!
# Model of `fpdec-core/src/parser.rs`, `src/from_str.rs` and the folding part of `Dec!`

Strings are lists of bytes (`Nat`, each `< 256`).  `AsciiDecLit` is the remaining slice.
Every `skip_n` / `read_u64_unchecked` in the Rust code is dominated by the guard that the
pattern match of the model makes explicit (`first()` returned `Some`, `len() >= 8`).
-/

namespace Fpdec.Model
open Fpdec

inductive ParseErr | empty | invalid | fracLimit | overflow
deriving Repr, DecidableEq, Inhabited

def ParseErr.toString : ParseErr → String
  | .empty => "Empty" | .invalid => "Invalid" | .fracLimit => "FracDigitLimitExceeded"
  | .overflow => "InternalOverflow"

def U64M : Nat := 18446744073709551616

/-- `u64::wrapping_sub` -/
def wsub64 (a b : Nat) : Nat := (a + U64M - b % U64M) % U64M
def wadd64 (a b : Nat) : Nat := (a + b) % U64M
def wmul64 (a b : Nat) : Nat := (a * b) % U64M

/-- `chunk_contains_8_digits` -/
def chunkContains8Digits (chunk : Nat) : Bool :=
  let x := wsub64 chunk Gen.SWAR_SUB
  let y := wadd64 chunk Gen.SWAR_ADD
  (x ||| y) &&& Gen.SWAR_HI == 0

/-- `chunk_to_u64` -/
def chunkToU64 (chunk : Nat) : Nat :=
  let chunk := chunk &&& Gen.SWAR_M1
  let chunk := wadd64 (wmul64 (chunk &&& Gen.SWAR_M2) 10) ((chunk >>> 8) &&& Gen.SWAR_M2)
  let chunk := wadd64 (wmul64 (chunk &&& Gen.SWAR_M3) 100) ((chunk >>> 16) &&& Gen.SWAR_M3)
  wadd64 (wmul64 (chunk &&& Gen.SWAR_M4) 10000) ((chunk >>> 32) &&& Gen.SWAR_M4)

/-- little-endian value of a byte list -/
def leBytes : List Nat → Nat
  | [] => 0
  | b :: bs => b + 256 * leBytes bs

/-- `read_u64` -/
def readU64 (s : List Nat) : Option Nat :=
  if s.length ≥ 8 then some (leBytes (s.take 8)) else none

/-- `u8::wrapping_sub(b'0')` -/
def digitVal (c : Nat) : Nat := (c + 256 - 48) % 256

def satMulU128 (a b : Nat) : Nat := if a * b < U128_MOD then a * b else U128_MOD - 1
def satAddU128 (a b : Nat) : Nat := if a + b < U128_MOD then a + b else U128_MOD - 1

/-- `skip_leading_zeroes` -/
def skipLeadingZeroes : List Nat → List Nat
  | [] => []
  | c :: cs => if c = 48 then skipLeadingZeroes cs else c :: cs

/-- first loop of `accum_coeff`: chunks of 8 digits (after the D1 repair: saturating) -/
def accumChunks : Nat → Nat → List Nat → Nat × List Nat
  | 0, coeff, s => (coeff, s)
  | fuel + 1, coeff, s =>
    match readU64 s with
    | some k =>
      if chunkContains8Digits k then
        accumChunks fuel (satAddU128 (satMulU128 coeff Gen.PARSE_CHUNK_MUL) (chunkToU64 k)) (s.drop 8)
      else (coeff, s)
    | none => (coeff, s)

/-- second loop of `accum_coeff`: remaining digits -/
def accumDigits (coeff : Nat) : List Nat → Nat × List Nat
  | [] => (coeff, [])
  | c :: cs =>
    let d := digitVal c
    if d < 10 then accumDigits (satAddU128 (satMulU128 coeff 10) d) cs else (coeff, c :: cs)

/-- `accum_coeff`: new coefficient, rest of the slice, number of bytes consumed -/
def accumCoeff (coeff : Nat) (s : List Nat) : Nat × List Nat × Nat :=
  let (c1, s1) := accumChunks s.length coeff s
  let (c2, s2) := accumDigits c1 s1
  (c2, s2, s.length - s2.length)

def ISIZE_MAX : Int := 9223372036854775807
def EXP_LIMIT : Int := ISIZE_MAX / Gen.EXP_LIMIT_DIV

/-- `accum_exp` -/
def accumExp (exp : Int) : List Nat → Int × List Nat
  | [] => (exp, [])
  | c :: cs =>
    let d := digitVal c
    if d < 10 then
      let exp := if exp < EXP_LIMIT then IntTy.isize.wrap (IntTy.isize.wrap (exp * 10) + d) else exp
      accumExp exp cs
    else (exp, c :: cs)

/-- optional sign; `none` for an empty slice -/
def takeSign : List Nat → Option (Bool × List Nat)
  | [] => none
  | c :: cs => if c = 45 then some (true, cs) else if c = 43 then some (false, cs) else some (false, c :: cs)

/-- `str_to_dec` (after the repairs D1–D5) -/
def strToDec (prof : Profile) (lit : List Nat) : Outcome (Except ParseErr (Int × Int)) :=
  match takeSign lit with
  | none => .ok (.error .empty)
  | some (isNeg, s) =>
    if s.isEmpty then .ok (.error .invalid) else
    let s' := skipLeadingZeroes s
    let hasLeadingZeroes := decide (s'.length < s.length)
    if s'.isEmpty then .ok (.ok (0, 0)) else
    let (coeff, s1, nInt) := accumCoeff 0 s'
    let (coeff, s2, nFrac) :=
      match s1 with
      | 46 :: rest => accumCoeff coeff rest
      | _ => (coeff, s1, 0)
    if nInt + nFrac = 0 ∧ !hasLeadingZeroes then .ok (.error .invalid) else
    if (coeff : Int) > I128_MAX then .ok (.error .overflow) else
    let expPart : Outcome (Except ParseErr (Int × List Nat)) :=
      match s2 with
      | [] => .ok (.ok (0, []))
      | c :: rest =>
        if c = 101 ∨ c = 69 then
          match takeSign rest with
          | none => .ok (.error .invalid)
          | some (expNeg, s3) =>
            let (exp, s4) := accumExp 0 s3
            let nExp := s3.length - s4.length
            match (if expNeg then IntTy.isize.plain prof (-exp) else .ok exp) with
            | .panic k => .panic k
            | .ok exp => if nExp = 0 then .ok (.error .invalid) else .ok (.ok (exp, s4))
        else .ok (.error .invalid)
    match expPart with
    | .panic k => .panic k
    | .ok (.error e) => .ok (.error e)
    | .ok (.ok (exp, s5)) =>
      if !s5.isEmpty then .ok (.error .invalid) else
      match IntTy.isize.plain prof (exp - nFrac) with
      | .panic k => .panic k
      | .ok exp =>
        match IntTy.isize.plain prof (-exp) with
        | .panic k => .panic k
        | .ok nexp =>
          if nexp > Gen.MAX_N_FRAC_DIGITS then .ok (.error .fracLimit) else
          let c : Int := IntTy.i128.cast coeff
          if isNeg then
            match negI128 prof c with
            | .panic k => .panic k
            | .ok c => .ok (.ok (c, exp))
          else .ok (.ok (c, exp))

/-- `Decimal::from_str` -/
def fromStr (prof : Profile) (lit : List Nat) : Outcome (Except ParseErr Dec) :=
  match strToDec prof lit with
  | .panic k => .panic k
  | .ok (.error e) => .ok (.error e)
  | .ok (.ok (coeff, exponent)) =>
    match IntTy.isize.plain prof (-exponent) with
    | .panic k => .panic k
    | .ok nexp =>
      if nexp > Gen.MAX_N_FRAC_DIGITS then .ok (.error .fracLimit)
      else if exponent > Gen.FROM_STR_MAX_EXP then
        if coeff = 0 then .ok (.ok Dec.ZERO) else .ok (.error .overflow)
      else if exponent < 0 then .ok (.ok ⟨coeff, (IntTy.u8.cast nexp).toNat⟩)
      else
        match checkedMulPowTen coeff (IntTy.u8.cast exponent).toNat with
        | none => .ok (.error .overflow)
        | some c => .ok (.ok ⟨c, 0⟩)

/-- ASCII white space: what `TokenStream::to_string` may put between a sign and the number that follows it — a blank, or a line
    break in front of a long literal (`str::trim_start` removes it; non-ASCII white space never occurs in that text) -/
def isAsciiWs (c : Nat) : Bool := c == 32 || c == 9 || c == 10 || c == 11 || c == 12 || c == 13

/-- the sign fix-up of `Dec!` (after the D15 repair): white space directly after a leading `-` / `+` is removed -/
def macroStripBlank : List Nat → List Nat
  | 45 :: rest => 45 :: rest.dropWhile isAsciiWs
  | 43 :: rest => 43 :: rest.dropWhile isAsciiWs
  | s => s

/-- folding part of `Dec!` after `TokenStream::to_string`; an error means "does not compile" -/
def macroFold (prof : Profile) (src : List Nat) : Outcome (Except ParseErr Dec) :=
  match strToDec prof (macroStripBlank src) with
  | .panic k => .panic k
  | .ok (.error e) => .ok (.error e)
  | .ok (.ok (coeff, exponent)) =>
    match IntTy.isize.plain prof (-exponent) with
    | .panic k => .panic k
    | .ok nexp =>
      if nexp > Gen.MAX_N_FRAC_DIGITS then .ok (.error .fracLimit)
      else
        let step1 : Except ParseErr Int :=
          if exponent > Gen.FROM_STR_MAX_EXP then
            if coeff ≠ 0 then .error .overflow else .ok 0
          else .ok exponent
        match step1 with
        | .error e => .ok (.error e)
        | .ok exponent =>
          if exponent > 0 then
            -- `10i128.pow(exponent as u32)`: exponent ≤ 38 here, fits
            match checkedI128 (coeff * (10 : Int) ^ exponent.toNat) with
            | none => .ok (.error .overflow)
            | some c => .ok (.ok ⟨c, 0⟩)
          else
            match IntTy.isize.plain prof (-exponent) with
            | .panic k => .panic k
            | .ok ne => .ok (.ok ⟨coeff, (IntTy.u8.cast ne).toNat⟩)

end Fpdec.Model
