import Fpdec.Model.Rounding

/-!
# Model of the `fpdec` crate: `Decimal`, arithmetic, comparison, rounding, unary operations

`Dec` mirrors `struct Decimal { coeff: i128, n_frac_digits: u8 }`.  Integer operands are passed
as `Int` (the caller guarantees the value is in the operand type's range; all nine integer types
share one macro body that starts with `i128::from(i)`).
-/

namespace Fpdec.Model
open Fpdec

structure Dec where
  coeff : Int
  nfrac : Nat
deriving Repr, DecidableEq, Inhabited

namespace Dec
def ZERO : Dec := ⟨0, 0⟩
def ONE : Dec := ⟨1, 0⟩
def NEG_ONE : Dec := ⟨-1, 0⟩
def TWO : Dec := ⟨2, 0⟩
def TEN : Dec := ⟨10, 0⟩
def MAX : Dec := ⟨I128_MAX, 0⟩
def MIN : Dec := ⟨I128_MIN + 1, 0⟩
def DELTA : Dec := ⟨1, Gen.MAX_N_FRAC_DIGITS⟩
end Dec

/-! ## src/lib.rs -/

/-- `normalize(&mut coeff, &mut n_frac_digits)`; loop bounded by `n_frac_digits` -/
def normalize (coeff : Int) (nfrac : Nat) : Int × Nat :=
  if coeff = 0 then (coeff, 0) else
  let rec go (fuel : Nat) (coeff : Int) (nfrac : Nat) : Int × Nat :=
    match fuel with
    | 0 => (coeff, nfrac)
    | fuel + 1 =>
      if coeff.tmod 10 = 0 ∧ nfrac > 0 then go fuel (coeff.tdiv 10) (nfrac - 1) else (coeff, nfrac)
  go nfrac coeff nfrac

/-- `Decimal::magnitude` (after the D6 repair); `as i8` casts, plain `i8` subtraction -/
def magnitude (prof : Profile) (d : Dec) : Outcome Int :=
  if d.coeff = 0 then .ok 0 else
  IntTy.i8.plain prof (IntTy.i8.cast (i128Magnitude d.coeff) - IntTy.i8.cast d.nfrac)

def eqZero (d : Dec) : Bool := d.coeff = 0
/-- `eq_one`: `self.coeff == ten_pow(self.n_frac_digits)` -/
def eqOne (d : Dec) : Outcome Bool := do
  let t ← tenPow d.nfrac
  pure (d.coeff = t)
def isNegative (d : Dec) : Bool := d.coeff < 0
def isPositive (d : Dec) : Bool := d.coeff > 0

/-! ## binops/add_sub.rs, checked_add_sub.rs (after the D11 repair) -/

/-- `coeff_or_panic` -/
def coeffOrPanic (c : Option Int) : Outcome Int := Outcome.ofOption .overflow c

/-- `impl Add<Decimal> for Decimal` / `impl Sub…`; `sub = true` for subtraction -/
def addSub (sub : Bool) (x y : Dec) : Outcome Dec :=
  let op (a b : Int) : Int := if sub then a - b else a + b
  match compare x.nfrac y.nfrac with
  | .eq => do
    let c ← coeffOrPanic (checkedI128 (op x.coeff y.coeff))
    pure ⟨c, x.nfrac⟩
  | .gt => do
    let b ← mulPowTen y.coeff (x.nfrac - y.nfrac)
    let c ← coeffOrPanic (checkedI128 (op x.coeff b))
    pure ⟨c, x.nfrac⟩
  | .lt => do
    let a ← mulPowTen x.coeff (y.nfrac - x.nfrac)
    let c ← coeffOrPanic (checkedI128 (op a y.coeff))
    pure ⟨c, y.nfrac⟩

/-- `impl Add<$t> for Decimal` (`intLeft = false`) and `impl Add<Decimal> for $t` (`intLeft = true`) -/
def addSubInt (sub : Bool) (intLeft : Bool) (d : Dec) (i : Int) : Outcome Dec :=
  let op (a b : Int) : Int := if sub then a - b else a + b
  if d.nfrac = 0 then do
    let c ← coeffOrPanic (checkedI128 (if intLeft then op i d.coeff else op d.coeff i))
    pure ⟨c, 0⟩
  else do
    let s ← mulPowTen i d.nfrac
    let c ← coeffOrPanic (checkedI128 (if intLeft then op s d.coeff else op d.coeff s))
    pure ⟨c, d.nfrac⟩

/-- `impl CheckedAdd<Decimal> for Decimal` / `CheckedSub` -/
def checkedAddSub (sub : Bool) (x y : Dec) : Option Dec :=
  let op (a b : Int) : Int := if sub then a - b else a + b
  match compare x.nfrac y.nfrac with
  | .eq => do
    let c ← checkedI128 (op x.coeff y.coeff)
    pure ⟨c, x.nfrac⟩
  | .gt => do
    let b ← checkedMulPowTen y.coeff (x.nfrac - y.nfrac)
    let c ← checkedI128 (op x.coeff b)
    pure ⟨c, x.nfrac⟩
  | .lt => do
    let a ← checkedMulPowTen x.coeff (y.nfrac - x.nfrac)
    let c ← checkedI128 (op a y.coeff)
    pure ⟨c, y.nfrac⟩

/-- `impl CheckedAdd<$t> for Decimal` and `impl CheckedAdd<Decimal> for $t` -/
def checkedAddSubInt (sub : Bool) (intLeft : Bool) (d : Dec) (i : Int) : Option Dec :=
  let op (a b : Int) : Int := if sub then a - b else a + b
  if d.nfrac = 0 then do
    let c ← checkedI128 (if intLeft then op i d.coeff else op d.coeff i)
    pure ⟨c, d.nfrac⟩
  else do
    let s ← checkedMulPowTen i d.nfrac
    let c ← checkedI128 (if intLeft then op s d.coeff else op d.coeff s)
    pure ⟨c, d.nfrac⟩

/-! ## binops/mul_rounded.rs, mul.rs, checked_mul.rs -/

/-- `checked_mul_rounded(x, y, n_frac_digits)`; the `u8` addition is a plain operator -/
def checkedMulRounded (prof : Profile) (tm : Mode) (x y : Dec) (n : Nat) : Outcome (Option Dec) := do
  let maxN ← plainU8 prof (x.nfrac + y.nfrac)
  if n ≥ maxN then
    match checkedI128 (x.coeff * y.coeff) with
    | none => pure none
    | some c => pure (some ⟨c, maxN⟩)
  else
    let shift := maxN - n
    match checkedI128 (x.coeff * y.coeff) with
    | some coeff => do
      let t ← tenPow shift
      let c ← i128DivRounded prof tm coeff t none
      pure (some ⟨c, n⟩)
    | none => do
      match ← i128MulDivTenPowRounded prof tm x.coeff y.coeff shift none with
      | none => pure none
      | some c => pure (some ⟨c, n⟩)

/-- `impl Mul<Decimal> for Decimal` -/
def mul (prof : Profile) (tm : Mode) (x y : Dec) : Outcome Dec := do
  if eqZero x || eqZero y then return Dec.ZERO
  if ← eqOne y then return x
  if ← eqOne x then return y
  match ← checkedMulRounded prof tm x y Gen.MAX_N_FRAC_DIGITS with
  | some r => pure r
  | none => .panic .overflow

/-- `impl CheckedMul<Decimal> for Decimal` -/
def checkedMul (prof : Profile) (x y : Dec) : Outcome (Option Dec) := do
  if eqZero x || eqZero y then return some Dec.ZERO
  if ← eqOne y then return some x
  if ← eqOne x then return some y
  let n ← plainU8 prof (x.nfrac + y.nfrac)
  if n > Gen.MAX_N_FRAC_DIGITS then return none
  match checkedI128 (x.coeff * y.coeff) with
  | none => pure none
  | some c => pure (some ⟨c, n⟩)

/-- `impl MulRounded<Decimal> for Decimal` -/
def mulRounded (prof : Profile) (tm : Mode) (x y : Dec) (n : Nat) : Outcome Dec := do
  if n > Gen.MAX_N_FRAC_DIGITS then .panic .nfrac
  else if eqZero x || eqZero y then pure Dec.ZERO
  else
    match ← checkedMulRounded prof tm x y n with
    | some r => pure r
    | none => .panic .overflow

/-- `impl Mul<$t> for Decimal`, `impl Mul<Decimal> for $t` (after the D11 repair) -/
def mulInt (d : Dec) (i : Int) : Outcome Dec :=
  match checkedI128 (d.coeff * i) with
  | some c => .ok ⟨c, d.nfrac⟩
  | none => .panic .overflow

/-- `impl CheckedMul<$t> for Decimal`, `impl CheckedMul<Decimal> for $t` -/
def checkedMulInt (d : Dec) (i : Int) : Option Dec := do
  let c ← checkedI128 (d.coeff * i)
  pure ⟨c, d.nfrac⟩

/-! ## binops/div_rounded.rs, div.rs, checked_div.rs -/

/-- `checked_div_rounded` (after the D7 repair) -/
def checkedDivRounded (prof : Profile) (tm : Mode) (a : Int) (p : Nat) (b : Int) (q : Nat) (n : Nat) :
    Outcome (Option Int) := do
  let shift ← plainU8 prof (n + q)
  match compare p shift with
  | .eq => do
    let c ← i128DivRounded prof tm a b none
    pure (some c)
  | .lt =>
    let shift := shift - p
    match checkedMulPowTen a shift with
    | some shifted => do
      let c ← i128DivRounded prof tm shifted b none
      pure (some c)
    | none => i128ShiftedDivRounded prof tm a shift b none
  | .gt => do
    let shift := p - shift
    let (quot, rem) ← i128DivModFloor prof a b
    let t ← tenPow shift
    if rem = 0 then do
      let c ← i128DivRounded prof tm quot t none
      pure (some c)
    else do
      let q2 ← plainI128 prof (2 * quot)
      let q2 ← plainI128 prof (q2 + 1)
      let t2 ← plainI128 prof (2 * t)
      let c ← i128DivRounded prof tm q2 t2 none
      pure (some c)

/-- `impl DivRounded<Decimal> for Decimal` -/
def divRounded (prof : Profile) (tm : Mode) (x y : Dec) (n : Nat) : Outcome Dec := do
  if n > Gen.MAX_N_FRAC_DIGITS then .panic .nfrac
  else if eqZero y then .panic .divzero
  else if eqZero x then pure Dec.ZERO
  else
    match ← checkedDivRounded prof tm x.coeff x.nfrac y.coeff y.nfrac n with
    | some c => pure ⟨c, n⟩
    | none => .panic .overflow

/-- `impl DivRounded<$t> for Decimal` (after the D8 repair) -/
def divRoundedDecInt (prof : Profile) (tm : Mode) (x : Dec) (i : Int) (n : Nat) : Outcome Dec := do
  if n > Gen.MAX_N_FRAC_DIGITS then .panic .nfrac
  else if i = 0 then .panic .divzero
  else if eqZero x then pure Dec.ZERO
  else
    match ← checkedDivRounded prof tm x.coeff x.nfrac i 0 n with
    | some c => pure ⟨c, n⟩
    | none => .panic .overflow

/-- `impl DivRounded<Decimal> for $t` (after the D8 repair) -/
def divRoundedIntDec (prof : Profile) (tm : Mode) (i : Int) (y : Dec) (n : Nat) : Outcome Dec := do
  if n > Gen.MAX_N_FRAC_DIGITS then .panic .nfrac
  else if eqZero y then .panic .divzero
  else if i = 0 then pure Dec.ZERO
  else
    match ← checkedDivRounded prof tm i 0 y.coeff y.nfrac n with
    | some c => pure ⟨c, n⟩
    | none => .panic .overflow

/-- `impl DivRounded<$t> for $t` — **no** `n_frac_digits` guard (open finding D8) -/
def divRoundedIntInt (prof : Profile) (tm : Mode) (i j : Int) (n : Nat) : Outcome Dec := do
  if j = 0 then .panic .divzero
  else if i = 0 then pure Dec.ZERO
  else
    match ← checkedDivRounded prof tm i 0 j 0 n with
    | some c => pure ⟨c, n⟩
    | none => .panic .overflow

/-- common tail of `div` / `checked_div` -/
def divCore (prof : Profile) (tm : Mode) (a : Int) (p : Nat) (b : Int) (q : Nat) :
    Outcome (Option Dec) := do
  match ← checkedDivRounded prof tm a p b q Gen.MAX_N_FRAC_DIGITS with
  | none => pure none
  | some c =>
    let (c, n) := normalize c Gen.MAX_N_FRAC_DIGITS
    pure (some ⟨c, n⟩)

/-- `impl Div<Decimal> for Decimal` -/
def div (prof : Profile) (tm : Mode) (x y : Dec) : Outcome Dec := do
  if eqZero y then .panic .divzero
  else if eqZero x then pure Dec.ZERO
  else if ← eqOne y then pure x
  else
    match ← divCore prof tm x.coeff x.nfrac y.coeff y.nfrac with
    | some r => pure r
    | none => .panic .overflow

/-- `impl CheckedDiv<Decimal> for Decimal` -/
def checkedDiv (prof : Profile) (tm : Mode) (x y : Dec) : Outcome (Option Dec) := do
  if eqZero y then pure none
  else if eqZero x then pure (some Dec.ZERO)
  else if ← eqOne y then pure (some x)
  else divCore prof tm x.coeff x.nfrac y.coeff y.nfrac

/-- `impl Div<$t> for Decimal` / `CheckedDiv<$t> for Decimal` (`checked` selects `None` vs panic) -/
def divDecInt (prof : Profile) (tm : Mode) (x : Dec) (i : Int) : Outcome (Option Dec) := do
  if eqZero x then pure (some Dec.ZERO)
  else if i = 1 then pure (some x)
  else divCore prof tm x.coeff x.nfrac i 0

/-- `impl Div<Decimal> for $t` / `CheckedDiv<Decimal> for $t` after the zero-divisor test -/
def divIntDec (prof : Profile) (tm : Mode) (i : Int) (y : Dec) : Outcome (Option Dec) := do
  if i = 0 then pure (some Dec.ZERO)
  else if ← eqOne y then pure (some ⟨i, 0⟩)
  else divCore prof tm i 0 y.coeff y.nfrac

/-- operator form: zero divisor and overflow panic -/
def opOfChecked (zeroDiv : Bool) (r : Outcome (Option Dec)) : Outcome Dec :=
  if zeroDiv then .panic .divzero else
  match r with
  | .panic k => .panic k
  | .ok (some d) => .ok d
  | .ok none => .panic .overflow

/-- checked form: zero divisor gives `None` -/
def checkedOfChecked (zeroDiv : Bool) (r : Outcome (Option Dec)) : Outcome (Option Dec) :=
  if zeroDiv then .ok none else r

/-! ## unops.rs -/

def neg (prof : Profile) (d : Dec) : Outcome Dec := do
  let c ← negI128 prof d.coeff
  pure ⟨c, d.nfrac⟩

/-- `i128::abs` is a plain operator (`MIN.abs()` overflows) -/
def abs (prof : Profile) (d : Dec) : Outcome Dec := do
  let c ← plainI128 prof (if d.coeff < 0 then -d.coeff else d.coeff)
  pure ⟨c, d.nfrac⟩

def divFloorI128 (prof : Profile) (x y : Int) : Outcome Int := do
  let q ← divI128 x y
  let r ← remI128 x y
  if (r > 0 ∧ y < 0) ∨ (r < 0 ∧ y > 0) then plainI128 prof (q - 1) else pure q

def divCeilI128 (prof : Profile) (x y : Int) : Outcome Int := do
  let q ← divI128 x y
  let r ← remI128 x y
  if (r > 0 ∧ y > 0) ∨ (r < 0 ∧ y < 0) then plainI128 prof (q + 1) else pure q

def floor (prof : Profile) (d : Dec) : Outcome Dec :=
  match d.nfrac with
  | 0 => .ok d
  | n => do
    let t ← tenPow n
    let c ← divFloorI128 prof d.coeff t
    pure ⟨c, 0⟩

def ceil (prof : Profile) (d : Dec) : Outcome Dec :=
  match d.nfrac with
  | 0 => .ok d
  | n => do
    let t ← tenPow n
    let c ← divCeilI128 prof d.coeff t
    pure ⟨c, 0⟩

def trunc (d : Dec) : Outcome Dec :=
  match d.nfrac with
  | 0 => .ok d
  | n => do
    let t ← tenPow n
    let c ← divI128 d.coeff t
    pure ⟨c, 0⟩

def fract (d : Dec) : Outcome Dec :=
  match d.nfrac with
  | 0 => .ok Dec.ZERO
  | n => do
    let t ← tenPow n
    let c ← remI128 d.coeff t
    pure ⟨c, n⟩

/-! ## binops/rem.rs, checked_rem.rs -/

/-- the digit loop of `rem` (`while rem != 0 && shift > 0`) -/
def remLoop (b : Int) : Nat → Int → Outcome (Option Int)
  | 0, rem => .ok (some rem)
  | shift + 1, rem =>
    if rem = 0 then .ok (some rem) else
    match checkedI128 (rem * 10) with
    | some s => do
      let r ← remI128 s b
      remLoop b shift r
    | none => .ok none

/-- `fn rem(...) -> Result<(i128, u8), DecimalError>`; `none` = `Err(InternalOverflow)` -/
def remCore (a : Int) (p : Nat) (b : Int) (q : Nat) : Outcome (Option Dec) :=
  match compare p q with
  | .eq => do
    let r ← wrappingRemI128 a b
    pure (some ⟨r, p⟩)
  | .gt =>
    match checkedMulPowTen b (p - q) with
    | some sb => do
      let r ← remI128 a sb
      pure (some ⟨r, p⟩)
    | none => pure (some ⟨a, p⟩)
  | .lt =>
    let shift := q - p
    match checkedMulPowTen a shift with
    | some sa => do
      let r ← remI128 sa b
      pure (some ⟨r, q⟩)
    | none => do
      let r ← wrappingRemI128 a b
      match ← remLoop b shift r with
      | some r => pure (some ⟨r, q⟩)
      | none => pure none

/-- Decimal % Decimal after the zero-divisor test (shared by `Rem` and `CheckedRem`) -/
def remDecDec (x y : Dec) : Outcome (Option Dec) := do
  if eqZero x then pure (some Dec.ZERO)
  else if ← eqOne y then do
    let f ← fract x
    pure (some f)
  else remCore x.coeff x.nfrac y.coeff y.nfrac

def remDecInt (x : Dec) (i : Int) : Outcome (Option Dec) := do
  if eqZero x then pure (some Dec.ZERO)
  else if i = 1 then do
    let f ← fract x
    pure (some f)
  else remCore x.coeff x.nfrac i 0

def remIntDec (i : Int) (y : Dec) : Outcome (Option Dec) := do
  if i = 0 then pure (some Dec.ZERO)
  else if ← eqOne y then pure (some Dec.ZERO)
  else remCore i 0 y.coeff y.nfrac

/-! ## binops/cmp.rs -/

def cmpInt (a b : Int) : Ordering := compare a b

/-- `impl PartialOrd<Decimal> for Decimal` -/
def partialCmp (x y : Dec) : Option Ordering :=
  match checkedAdjustCoeffs x.coeff x.nfrac y.coeff y.nfrac with
  | (some a, some b) => some (cmpInt a b)
  | (none, some _) => if x.coeff > 0 then some .gt else some .lt
  | (some _, none) => if y.coeff < 0 then some .gt else some .lt
  | (none, none) => none

/-- `impl PartialEq<Decimal> for Decimal` -/
def decimalEq (x y : Dec) : Bool :=
  match checkedAdjustCoeffs x.coeff x.nfrac y.coeff y.nfrac with
  | (some a, some b) => a = b
  | _ => false

/-- `impl Ord for Decimal`: `self.partial_cmp(other).unwrap()` -/
def cmp (x y : Dec) : Outcome Ordering :=
  match partialCmp x y with
  | some o => .ok o
  | none => .panic .unwrap

/-- `impl PartialEq<$t> for Decimal` (unsigned types test the sign first) -/
def decEqInt (signed : Bool) (d : Dec) (i : Int) : Bool :=
  if !signed && isNegative d then false else
  match checkedMulPowTen i d.nfrac with
  | some c => d.coeff = c
  | none => false

/-- `impl PartialOrd<$t> for Decimal` -/
def partialCmpDecInt (signed : Bool) (d : Dec) (i : Int) : Option Ordering :=
  if signed then
    match checkedMulPowTen i d.nfrac with
    | some c => some (cmpInt d.coeff c)
    | none => if i ≥ 0 then some .lt else some .gt
  else
    if isNegative d then some .lt else
    match checkedMulPowTen i d.nfrac with
    | some c => some (cmpInt d.coeff c)
    | none => some .lt

/-- `impl PartialOrd<Decimal> for $t` -/
def partialCmpIntDec (signed : Bool) (i : Int) (d : Dec) : Option Ordering :=
  if signed then
    match checkedMulPowTen i d.nfrac with
    | some c => some (cmpInt c d.coeff)
    | none => if i < 0 then some .lt else some .gt
  else
    if isNegative d then some .gt else
    match checkedMulPowTen i d.nfrac with
    | some c => some (cmpInt c d.coeff)
    | none => some .gt

/-! ## round.rs (after the D9 and D11 repairs) -/

/-- common part of `round` / `checked_round`; `none` = not representable -/
def roundCore (prof : Profile) (tm : Mode) (d : Dec) (n : Int) : Outcome (Option Dec) := do
  let p : Int := IntTy.i8.cast d.nfrac
  if n ≥ p then pure (some d)
  else
    let lim ← IntTy.i8.plain prof (p - Gen.ROUND_MAX_SHIFT)
    if n < lim then do
      let c ← i128DivRounded prof tm (Int.sign d.coeff) Gen.ROUND_SIGNUM_DIVISOR none
      if c = 0 then pure (some Dec.ZERO)
      else
        match checkedMulPowTen c n.natAbs with
        | some c => pure (some ⟨c, 0⟩)
        | none => pure none
    else do
      let sh ← IntTy.i8.plain prof (p - n)
      let shift := (IntTy.u8.cast sh).toNat
      let divisor ← tenPow shift
      let c ← i128DivRounded prof tm d.coeff divisor none
      if n ≥ 0 then pure (some ⟨c, (IntTy.u8.cast n).toNat⟩)
      else do
        let m ← IntTy.i8.plain prof (-n)
        let t ← tenPow (IntTy.u8.cast m).toNat
        match checkedI128 (c * t) with
        | some c => pure (some ⟨c, 0⟩)
        | none => pure none

def round (prof : Profile) (tm : Mode) (d : Dec) (n : Int) : Outcome Dec := do
  match ← roundCore prof tm d n with
  | some r => pure r
  | none => .panic .overflow

def checkedRound (prof : Profile) (tm : Mode) (d : Dec) (n : Int) : Outcome (Option Dec) :=
  roundCore prof tm d n

/-! ## quantize.rs: `self.div_rounded(quant, 0) * quant` -/

def quantize (prof : Profile) (tm : Mode) (x q : Dec) : Outcome Dec := do
  let r ← divRounded prof tm x q 0
  mul prof tm r q

def quantizeDecInt (prof : Profile) (tm : Mode) (x : Dec) (i : Int) : Outcome Dec := do
  let r ← divRoundedDecInt prof tm x i 0
  mulInt r i

def quantizeIntDec (prof : Profile) (tm : Mode) (i : Int) (q : Dec) : Outcome Dec := do
  let r ← divRoundedIntDec prof tm i q 0
  mul prof tm r q

def quantizeIntInt (prof : Profile) (tm : Mode) (i j : Int) : Outcome Dec := do
  let r ← divRoundedIntInt prof tm i j 0
  mulInt r j

/-! ## from_int.rs, into_int.rs -/

def fromInt (i : Int) : Dec := ⟨i, 0⟩

/-- `TryFrom<u128> for Decimal`; `none` = `Err(InternalOverflow)` -/
def tryFromU128 (i : Nat) : Option Dec :=
  if (i : Int) ≤ I128_MAX then some ⟨i, 0⟩ else none

inductive IntoIntErr | notAnInt | outOfRange
deriving Repr, DecidableEq

/-- `TryFrom<Decimal> for i128` -/
def intoI128 (d : Dec) : Outcome (Except IntoIntErr Int) :=
  if d.nfrac = 0 ∨ d.coeff = 0 then .ok (.ok d.coeff) else do
    let t ← tenPow d.nfrac
    let r ← remI128 d.coeff t
    if r = 0 then do
      let q ← divI128 d.coeff t
      pure (.ok q)
    else pure (.error .notAnInt)

/-- `TryFrom<Decimal> for $t` -/
def intoInt (t : IntTy) (d : Dec) : Outcome (Except IntoIntErr Int) := do
  match ← intoI128 d with
  | .ok i => if t.fits i then pure (.ok i) else pure (.error .outOfRange)
  | .error e => pure (.error e)

end Fpdec.Model
