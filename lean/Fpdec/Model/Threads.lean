import Fpdec.Model.Decimal

/-!
# Model of the per-thread default rounding mode (`DFLT_ROUNDING_MODE`)

The storage class and the initial value are read from the source (`Gen.Consts`): with
`thread_local!` every thread owns a cell, with a plain `static` there would be a single cell.
-/

namespace Fpdec.Model
open Fpdec

def modeOfRustName : String → Option Mode
  | "Round05Up" => some .r05up | "RoundCeiling" => some .ceil | "RoundDown" => some .down
  | "RoundFloor" => some .floor | "RoundHalfDown" => some .hdown | "RoundHalfEven" => some .heven
  | "RoundHalfUp" => some .hup | "RoundUp" => some .up | _ => none

/-- initial value of the cell, as written in the source -/
def dfltInit : Mode := (modeOfRustName Gen.DFLT_MODE_INIT).getD .r05up

/-- which cell thread `t` uses -/
def cellOf (t : Nat) : Nat := if Gen.DFLT_MODE_THREAD_LOCAL then t else 0

/-- contents of the cells that have been written so far (cell id ↦ mode); absent = initial -/
abbrev World := List (Nat × Mode)

def World.read (w : World) (cell : Nat) : Mode :=
  match w.find? (fun e => e.1 = cell) with
  | some e => e.2
  | none => dfltInit

/-- `RoundingMode::default()` on thread `t` -/
def World.default (w : World) (t : Nat) : Mode := w.read (cellOf t)

/-- `RoundingMode::set_default(m)` on thread `t` -/
def World.setDefault (w : World) (t : Nat) (m : Mode) : World :=
  (cellOf t, m) :: w.filter (fun e => e.1 ≠ cellOf t)

/-- operations of a schedule -/
inductive ThreadOp
  | set (t : Nat) (m : Mode)
  | get (t : Nat)
  /-- a rounding operation on thread `t`: `Decimal(c, p).round(n)` -/
  | round (t : Nat) (c : Int) (p : Nat) (n : Int)
  /-- five roundings (1.5, 2.5, -1.5, 2.1, 0.5 to integers) that together identify the mode in effect -/
  | probe (t : Nat)
deriving Repr

inductive ThreadObs
  | none
  | mode (m : Mode)
  | dec (r : Outcome Dec)
  | probe (rs : List (Outcome Dec))
deriving Repr, DecidableEq

def threadStep (prof : Profile) (w : World) : ThreadOp → World × ThreadObs
  | .set t m => (w.setDefault t m, .none)
  | .get t => (w, .mode (w.default t))
  | .round t c p n => (w, .dec (round prof (w.default t) ⟨c, p⟩ n))
  | .probe t => (w, .probe ([15, 25, -15, 21, 5].map fun c => round prof (w.default t) ⟨c, 1⟩ 0))

def runSchedule (prof : Profile) (w : World) : List ThreadOp → List ThreadObs
  | [] => []
  | op :: ops => let (w', o) := threadStep prof w op; o :: runSchedule prof w' ops

end Fpdec.Model
