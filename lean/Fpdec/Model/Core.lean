import Fpdec.Prim
import Fpdec.Gen.Consts

/-!
# Model of `fpdec-core/src/lib.rs` and `powers_of_ten.rs`

One definition per Rust function, same branch structure and order of operations.
`&mut` out-parameters are returned as tuples.  Constants come from `Gen.Consts`
(re-extracted from the source on every run).
-/

namespace Fpdec.Model
open Fpdec

/-! ## powers_of_ten.rs -/

/-- `ten_pow(n)`: `POWERS_OF_10[n as usize]` (index panic past the table) -/
def tenPow (n : Nat) : Outcome Int :=
  match Gen.POWERS_OF_10[n]? with
  | some v => .ok v
  | none => .panic .index

/-- `checked_ten_pow` -/
def checkedTenPow (n : Nat) : Option Int :=
  if n > Gen.CHECKED_TEN_POW_LIMIT then none else Gen.POWERS_OF_10[n]?

/-- `mul_pow_ten(val, n)` (after the D11 repair: `checked_mul` + panic with the overflow message) -/
def mulPowTen (val : Int) (n : Nat) : Outcome Int := do
  let t ← tenPow n
  Outcome.ofOption .overflow (checkedI128 (val * t))

/-- `checked_mul_pow_ten` -/
def checkedMulPowTen (val : Int) (n : Nat) : Option Int := do
  let t ← checkedTenPow n
  checkedI128 (val * t)

/-! ## lib.rs -/

/-- `checked_adjust_coeffs` -/
def checkedAdjustCoeffs (x : Int) (p : Nat) (y : Int) (q : Nat) : Option Int × Option Int :=
  match compare p q with
  | .eq => (some x, some y)
  | .gt => (some x, checkedMulPowTen y (p - q))
  | .lt => (checkedMulPowTen x (q - p), some y)

/-- `i128_div_mod_floor` -/
def i128DivModFloor (prof : Profile) (x y : Int) : Outcome (Int × Int) := do
  let q ← divI128 x y
  let r ← remI128 x y
  if (r > 0 ∧ y < 0) ∨ (r < 0 ∧ y > 0) then do
    let q' ← plainI128 prof (q - 1)
    let r' ← plainI128 prof (r + y)
    pure (q', r')
  else
    pure (q, r)

/-- `fn u8(val: u8) -> u32` (log10 bit trick) -/
def log10U8 (val : Nat) : Nat :=
  ((val + Gen.LOG_U8_C1) &&& (val + Gen.LOG_U8_C2)) >>> 8

/-- `fn less_than_5(val: u32) -> u32` -/
def lessThan5 (val : Nat) : Nat :=
  (((val + Gen.LOG_LT5_C1) &&& (val + Gen.LOG_LT5_C2)) ^^^
    ((val + Gen.LOG_LT5_C3) &&& (val + Gen.LOG_LT5_C4))) >>> 17

/-- `fn u16` -/
def log10U16 (val : Nat) : Nat := lessThan5 val

/-- `fn u32` -/
def log10U32 (val : Nat) : Nat :=
  if val ≥ Gen.LOG_U32_T then 5 + lessThan5 (val / Gen.LOG_U32_T) else lessThan5 val

/-- `fn u64` (`val as u32` truncates) -/
def log10U64 (val : Nat) : Nat :=
  let (val, log) := if val ≥ Gen.LOG_U64_T1 then (val / Gen.LOG_U64_T1, 10) else (val, 0)
  let (val, log) := if val ≥ Gen.LOG_U64_T2 then (val / Gen.LOG_U64_T2, log + 5) else (val, log)
  log + lessThan5 (val % 2 ^ 32)

/-- `fn u128` -/
def log10U128 (val : Nat) : Nat :=
  if val ≥ Gen.LOG_U128_T1 then
    32 + log10U32 ((val / Gen.LOG_U128_T1) % 2 ^ 32)
  else
    let (val, log) := if val ≥ Gen.LOG_U128_T2 then (val / Gen.LOG_U128_T2, 16) else (val, 0)
    log + log10U64 (val % 2 ^ 64)

/-- `i128_magnitude(i)`: `u128(i.unsigned_abs()) as u8` -/
def i128Magnitude (i : Int) : Nat := log10U128 i.natAbs % 256

/-- one step of the binary search in `u128_msb` -/
def msbStep (mask sh : Nat) (st : Nat × Nat) : Nat × Nat :=
  if st.2 &&& mask != 0 then (st.1 + sh, st.2 >>> sh) else st

/-- `u128_msb` -/
def u128Msb (prof : Profile) (i : Nat) : Outcome Nat :=
  match debugAssert prof (i != 0) with
  | .panic k => .panic k
  | .ok () =>
    -- the first step assigns `n = 64` (the others add)
    let st := msbStep (0xffffffffffffffff <<< 64) 64 (0, i)
    let st := msbStep (0xffffffff <<< 32) 32 st
    let st := msbStep (0xffff <<< 16) 16 st
    let st := msbStep (0xff <<< 8) 8 st
    let st := msbStep 0xf0 4 st
    match Gen.MSB_IDX_MAP[st.2]? with
    | none => .panic .index
    | some m =>
      match plainU8 prof (st.1 + m) with
      | .panic k => .panic k
      | .ok s => plainU8 prof ((s : Int) - 1)

def u128Hi (u : Nat) : Nat := u >>> 64
def u128Lo (u : Nat) : Nat := u &&& 0xffffffffffffffff

/-- `u128_mul_u128`: `(rh, rl)` with `rh·2^128 + rl = x·y` -/
def u128MulU128 (prof : Profile) (x y : Nat) : Outcome (Nat × Nat) := do
  let xh := u128Hi x
  let xl := u128Lo x
  let yh := u128Hi y
  let yl := u128Lo y
  let t ← plainU128 prof (xl * yl)
  let rl := u128Lo t
  let t1 ← plainU128 prof (xl * yh)
  let t ← plainU128 prof (t1 + u128Hi t)
  let rh := u128Hi t
  let t2 ← plainU128 prof (xh * yl)
  let t ← plainU128 prof (t2 + u128Lo t)
  -- `u128_lo(t) << 64`: bits shifted out are dropped without a check
  let rl ← plainU128 prof (rl + wrapU128 (u128Lo t <<< 64))
  let t3 ← plainU128 prof (xh * yh)
  let t4 ← plainU128 prof (t3 + u128Hi t)
  let rh ← plainU128 prof (rh + t4)
  pure (rh, rl)

/-- `u256_idiv_u64`: returns `(xh', xl', rem)` -/
def u256IdivU64 (prof : Profile) (xh xl : Nat) (y : Nat) : Outcome (Nat × Nat × Nat) := do
  if y = 1 then
    pure (xh, xl, 0)
  else
    -- y ≠ 0 is the caller's obligation; `/` and `%` panic on zero in every profile
    if y = 0 then .panic .rdivzero else
    let th := u128Hi xh
    let r := th % y
    let tl ← plainU128 prof (wrapU128 (r <<< 64) + u128Lo xh)
    let xh' ← plainU128 prof (wrapU128 ((th / y) <<< 64) + tl / y)
    let r := tl % y
    let th ← plainU128 prof (wrapU128 (r <<< 64) + u128Hi xl)
    let r := th % y
    let tl ← plainU128 prof (wrapU128 (r <<< 64) + u128Lo xl)
    let xl' ← plainU128 prof (wrapU128 ((th / y) <<< 64) + tl / y)
    pure (xh', xl', tl % y)

/-- loop condition of the quotient-digit correction: `q >= B || q * yn0 > rhat * B + xn`
    (short-circuit `||`: the product is only evaluated when `q < B`) -/
def corrCond (prof : Profile) (yn0 xn : Nat) (q rhat : Nat) : Outcome Bool :=
  if q ≥ U64_MOD then .ok true else do
    let l ← plainU128 prof (q * yn0)
    let r1 ← plainU128 prof (rhat * U64_MOD)
    let r ← plainU128 prof (r1 + xn)
    pure (decide (l > r))

/-- the quotient-digit correction loop of `u256_idiv_u128_special`
    (`while q >= B || q * yn0 > rhat * B + xn { q -= 1; rhat += yn1; if rhat >= B { break } }`) -/
def corrLoop (prof : Profile) (yn1 yn0 xn : Nat) (q rhat : Nat) : Outcome (Nat × Nat) :=
  match corrCond prof yn0 xn q rhat with
  | .panic k => .panic k
  | .ok false => .ok (q, rhat)
  | .ok true =>
    match q with
    | 0 =>
      -- `q -= 1` on zero (unreachable: proved)
      if prof.oc then .panic .arith else .ok (U128_MOD - 1, rhat)
    | q' + 1 =>
      match plainU128 prof (rhat + yn1) with
      | .panic k => .panic k
      | .ok rhat' =>
        if rhat' ≥ U64_MOD then .ok (q', rhat')
        else corrLoop prof yn1 yn0 xn q' rhat'

/-- `u256_idiv_u128_special` (Knuth D, 4 by 2 digits, `xh < y`): returns `(xh', xl', rem)` -/
def u256IdivU128Special (prof : Profile) (xh xl : Nat) (y : Nat) : Outcome (Nat × Nat × Nat) := do
  debugAssert prof (decide (xh < y))
  let B := U64_MOD
  let msb ← u128Msb prof y
  let nBits ← plainU8 prof (127 - (msb : Int))
  let y := wrapU128 (y <<< nBits)
  let yn1 := u128Hi y
  let yn0 := u128Lo y
  let sh := if nBits = 0 then 0 else xl >>> (128 - nBits)
  let xn32 := wrapU128 (xh <<< nBits) ||| sh
  let xn10 := wrapU128 (xl <<< nBits)
  let xn1 := u128Hi xn10
  let xn0 := u128Lo xn10
  if yn1 = 0 then .panic .rdivzero else
  let q1 := xn32 / yn1
  let rhat := xn32 % yn1
  let (q1, _) ← corrLoop prof yn1 yn0 xn1 q1 rhat
  let t := wrapU128 (wrapU128 (wrapU128 (xn32 * B) + xn1) + U128_MOD - wrapU128 (q1 * y))
  let q0 := t / yn1
  let rhat := t % yn1
  let (q0, _) ← corrLoop prof yn1 yn0 xn0 q0 rhat
  let xl1 ← plainU128 prof (q1 * B)
  let xl' ← plainU128 prof (xl1 + q0)
  let r := wrapU128 (wrapU128 (wrapU128 (t * B) + xn0) + U128_MOD - wrapU128 (q0 * y))
  pure (0, xl', r >>> nBits)

/-- `u256_idiv_u128` -/
def u256IdivU128 (prof : Profile) (xh xl : Nat) (y : Nat) : Outcome (Nat × Nat × Nat) := do
  if u128Hi y = 0 then
    u256IdivU64 prof xh xl (u128Lo y % U64_MOD)
  else if xh < y then
    u256IdivU128Special prof xh xl y
  else
    -- y ≠ 0 here because its high word is non-zero
    let t := xh % y
    let (_, xl', r) ← u256IdivU128Special prof t xl y
    pure (xh / y, xl', r)

/-- `i128_shifted_div_mod_floor` (after the D10 and D13 repairs) -/
def i128ShiftedDivModFloor (prof : Profile) (x : Int) (p : Nat) (y : Int) :
    Outcome (Option (Int × Int)) := do
  let t ← tenPow p
  let (xh, xl) ← u128MulU128 prof x.natAbs (IntTy.u128.cast t).toNat
  let (xh, xl, r) ← u256IdivU128 prof xh xl y.natAbs
  if xh ≠ 0 ∨ (xl : Int) > I128_MAX then
    pure none
  else
    let q : Int := xl
    let r : Int := IntTy.i128.cast r
    if x < 0 then
      if y < 0 then do
        let r ← negI128 prof r
        pure (some (q, r))
      else if r = 0 then do
        let q ← negI128 prof q
        pure (some (q, r))
      else do
        let q ← negI128 prof q
        let q ← plainI128 prof (q - 1)
        let r ← plainI128 prof (y - r)
        pure (some (q, r))
    else if y < 0 then
      if r = 0 then do
        let q ← negI128 prof q
        pure (some (q, r))
      else do
        let q ← negI128 prof q
        let q ← plainI128 prof (q - 1)
        let r ← plainI128 prof (r + y)
        pure (some (q, r))
    else
      pure (some (q, r))

/-- `i256_div_mod_floor` (after the D10 repair) -/
def i256DivModFloor (prof : Profile) (x1 x2 : Int) (y : Int) : Outcome (Option (Int × Int)) := do
  debugAssert prof (decide (y > 0))
  let (xh, xl) ← u128MulU128 prof x1.natAbs x2.natAbs
  let (xh, xl, r) ← u256IdivU128 prof xh xl y.natAbs
  if xh ≠ 0 ∨ (xl : Int) > I128_MAX then
    pure none
  else
    let q : Int := xl
    let r : Int := IntTy.i128.cast r
    if decide (x1 < 0) != decide (x2 < 0) then
      if r = 0 then do
        let q ← negI128 prof q
        pure (some (q, r))
      else do
        let q ← negI128 prof q
        let q ← plainI128 prof (q - 1)
        let r ← plainI128 prof (y - r)
        pure (some (q, r))
    else
      pure (some (q, r))

end Fpdec.Model
