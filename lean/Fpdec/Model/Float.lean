import Fpdec.Model.Decimal
import Fpdec.Spec.Float

/-!
# Model of `src/into_float.rs` and `src/from_float.rs`

Floats are bit patterns (`Nat`).  The `as f64` / `as f32` cast of an `i128` is *assumed* to
be round-to-nearest-even (Rust reference) and modelled by the spec function `Spec.rneBits`.
-/

namespace Fpdec.Model
open Fpdec

/-- `u128 << s`: panics (overflow check) when `s ≥ 128`, drops shifted-out bits -/
def shlU128 (prof : Profile) (x s : Nat) : Outcome Nat :=
  if s ≥ 128 then (if prof.oc then .panic .arith else .ok (wrapU128 (x <<< (s % 128))))
  else .ok (wrapU128 (x <<< s))

/-- `n_signif_bits` -/
def nSignifBits (v : Nat) : Nat := 128 - leadingZeros 128 v

/-- `Float::from_decimal` — returns the bit pattern (as `u64`) -/
def fromDecimal (prof : Profile) (f : Spec.FloatFmt) (d : Dec) : Outcome Nat := do
  let addBits := f.fracBits + Gen.FLT_EXTRA_BITS
  let num := d.coeff.natAbs
  let den ← plainU128 prof ((10 : Int) ^ d.nfrac)
  let numLz := leadingZeros 128 num
  let denLz := leadingZeros 128 den
  let numShl := (numLz + addBits) - denLz
  let denShl := (denLz - numLz) - addBits
  let num ← shlU128 prof num numShl
  let den ← shlU128 prof den denShl
  if den = 0 then .panic .rdivzero else
  let quot := num / den
  let rem := num % den
  let adj : Nat := if nSignifBits quot = addBits then 1 else 0
  match Gen.FLT_MASK_EXTRA_BITS[adj]? with
  | none => .panic .index
  | some mask =>
    let rnd : Nat := ((quot &&& mask) % 2 ^ 32) <<< adj
    let rnd := rnd ||| (if rem ≠ 0 then 1 else 0)
    let signif : Nat := (quot >>> (Gen.FLT_EXTRA_BITS - adj)) % 2 ^ 64
    let exp ← IntTy.i32.plain prof ((denLz : Int) - numLz)
    let exp ← IntTy.i32.plain prof (exp - adj)
    let e1 ← IntTy.i32.plain prof (f.bias + exp)
    let e2 ← IntTy.i32.plain prof (e1 - 1)
    let hi : Nat := ((IntTy.u64.cast e2).toNat <<< f.fracBits) % 2 ^ 64
    let bits ← IntTy.u64.plain prof ((signif : Int) + hi)
    let inc : Nat := if rnd > Gen.FLT_TIE ∨ (rnd = Gen.FLT_TIE ∧ signif % 2 = 1) then 1 else 0
    let bits ← IntTy.u64.plain prof (bits + inc)
    let bits := bits.toNat ||| ((if d.coeff < 0 then 1 else 0) <<< (f.bits - 1))
    -- `from_bits(bits as u32)` for f32
    pure (bits % 2 ^ f.bits)

/-- `i128 as f64` / `as f32`: assumed round-to-nearest-even -/
def i128AsFloat (f : Spec.FloatFmt) (i : Int) : Nat :=
  if i = 0 then 0
  else (Spec.rneBits f i.natAbs 1) ||| ((if i < 0 then 1 else 0) <<< (f.bits - 1))

/-- `impl From<Decimal> for f64 / f32` -/
def intoFloat (prof : Profile) (f : Spec.FloatFmt) (d : Dec) : Outcome Nat :=
  if d.nfrac = 0 ∨ d.coeff = 0 then .ok (i128AsFloat f d.coeff) else fromDecimal prof f d

/-! ## from_float.rs -/

inductive FloatErr | infinite | nan | overflow
deriving Repr, DecidableEq

/-- constants of `f64_decode` / `f32_decode` as read from the source:
    exponent shift, exponent mask, NaN/inf exponent, fraction mask, integer bit, bias, fraction shift, sign shift -/
def decodeConsts (f : Spec.FloatFmt) : Array Nat := if f.expBits = 11 then Gen.F64_DECODE else Gen.F32_DECODE

/-- `f64_decode` / `f32_decode`: `(significand, exponent, sign)` -/
def floatDecode (f : Spec.FloatFmt) (bits : Nat) : Outcome (Nat × Int × Int) :=
  match decodeConsts f with
  | #[expShift, expMask, nanExp, fracMask, intBit, bias, fracShift, signShift] =>
    let signBit := (bits >>> signShift) % 256
    let biasedExp : Int := IntTy.i16.cast (((bits >>> expShift) &&& expMask : Nat) : Int)
    match assert (biasedExp ≠ (nanExp : Int)) with
    | .panic k => .panic k
    | .ok () =>
      let fraction := bits &&& fracMask
      if biasedExp = 0 then .ok (0, 0, 0)
      else
        -- `1 - (sign_bit << 1) as i8`
        .ok (fraction ||| intBit, biasedExp - bias - fracShift, 1 - IntTy.i8.cast ((signBit <<< 1) % 256))
  | _ => .panic .other

/-- loop of `approx_rational`; `k` = remaining iterations allowed by `n_frac_digits < 18` -/
def approxLoop (prof : Profile) (divisor : Int) :
    Nat → Int → Int → Nat → Nat → Outcome (Int × Int × Nat)
  | 0, coeff, rem, nfrac, _ => .ok (coeff, rem, nfrac)
  | k + 1, coeff, rem, nfrac, magn =>
    if rem ≠ 0 ∧ magn < Gen.FROM_FLT_MAGN_I128_MAX - 1 then do
      let rem ← plainI128 prof (rem * 10)
      let quot ← divI128 rem divisor
      let rem ← remI128 rem divisor
      let magn ← plainU8 prof (magn + 1)
      let c10 ← plainI128 prof (coeff * 10)
      let coeff ← plainI128 prof (c10 + quot)
      approxLoop prof divisor k coeff rem (nfrac + 1) magn
    else .ok (coeff, rem, nfrac)

/-- `approx_rational` -/
def approxRational (prof : Profile) (divident divisor : Int) : Outcome (Int × Nat) := do
  assert (divisor > 0)
  if divisor = 1 then return (divident, 0)
  if divident = 0 then return (0, 0)
  let a ← plainI128 prof (if divident < 0 then -divident else divident)
  let coeff ← divI128 a divisor
  let rem ← remI128 a divisor
  let magn := i128Magnitude coeff
  let (coeff, rem, nfrac) ← approxLoop prof divisor Gen.MAX_N_FRAC_DIGITS coeff rem 0 magn
  -- `rem <<= 1` on i128: shifted-out bits are dropped
  let rem := IntTy.i128.cast (rem * 2)
  let coeff ← if rem > divisor ∨ (rem = divisor ∧ coeff % 2 = 1) then plainI128 prof (coeff + 1) else pure coeff
  let coeff ← plainI128 prof (coeff * Int.sign divident)
  pure (normalize coeff nfrac)

/-- `TryFrom<f64> / TryFrom<f32> for Decimal` -/
def tryFromFloat (prof : Profile) (f : Spec.FloatFmt) (bits : Nat) : Outcome (Except FloatErr Dec) := do
  let be := (bits >>> f.fracBits) &&& (2 ^ f.expBits - 1)
  let frac := bits &&& (2 ^ f.fracBits - 1)
  if be = 2 ^ f.expBits - 1 ∧ frac = 0 then return .error .infinite
  if be = 2 ^ f.expBits - 1 then return .error .nan
  let (significand, exponent, sign) ← floatDecode f bits
  if exponent < Gen.FROM_FLT_MIN_EXP then return .ok Dec.ZERO
  if exponent < 0 then do
    let numer ← plainI128 prof (sign * significand)
    -- `1_i128 << ((-exponent) as usize)`
    let denom := IntTy.i128.cast ((2 : Int) ^ (-exponent).toNat)
    let (c, n) ← approxRational prof numer denom
    return .ok ⟨c, n⟩
  if f.expBits = 11 ∧ exponent ≥ 128 then return .error .overflow
  let numer ← plainI128 prof (sign * significand)
  if exponent.toNat ≥ 128 then (if prof.oc then .panic .arith else pure ()) else pure ()
  let shift := IntTy.i128.cast ((2 : Int) ^ (exponent.toNat % 128))
  match checkedI128 (numer * shift) with
  | some c => return .ok ⟨c, 0⟩
  | none => return .error .overflow

end Fpdec.Model
