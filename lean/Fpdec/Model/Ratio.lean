import Fpdec.Model.Decimal

/-! # Model of `src/as_integer_ratio.rs` and `impl Hash for Decimal` -/

namespace Fpdec.Model
open Fpdec

/-- the Stein loop of `gcd_special`: `while v != 0 { v >>= tz(v); if u > v { swap }; v -= u }`.
    Terminates because `u > 0` (the sum `u + v` strictly decreases); `fuel` is a safe upper bound. -/
def gcdLoop : Nat → Nat → Nat → Option Nat
  | 0, _, _ => none
  | fuel + 1, u, v =>
    if v = 0 then some u else
    let v := v >>> trailingZeros 128 v
    let (u, v) := if u > v then (v, u) else (u, v)
    gcdLoop fuel u (v - u)

/-- `gcd_special(numer, denom_exp)` -/
def gcdSpecial (prof : Profile) (numer : Int) (denomExp : Nat) : Outcome Int := do
  assert (numer ≠ 0)
  assert (denomExp ≤ 38)
  let u ← plainI128 prof (if numer < 0 then -numer else numer)
  let utz := trailingZeros 128 u.toNat
  let u := u.toNat >>> utz
  let t ← tenPow (denomExp % 256)
  let v := t.toNat >>> denomExp
  match gcdLoop 600 u v with
  | none => .panic .other
  | some g =>
    -- `u << min(utz, denom_exp)` on `i128`: bits shifted out are dropped
    pure (IntTy.i128.cast ((g <<< (Nat.min utz denomExp) : Nat) : Int))

/-- `Decimal::as_integer_ratio` -/
def asIntegerRatio (prof : Profile) (d : Dec) : Outcome (Int × Int) :=
  if d.nfrac = 0 ∨ d.coeff = 0 then .ok (d.coeff, 1) else do
    let g ← gcdSpecial prof d.coeff d.nfrac
    let n ← divI128 d.coeff g
    let t ← tenPow d.nfrac
    let dn ← divI128 t g
    pure (n, dn)

def numerator (prof : Profile) (d : Dec) : Outcome Int :=
  if d.nfrac = 0 ∨ d.coeff = 0 then .ok d.coeff else do
    let g ← gcdSpecial prof d.coeff d.nfrac
    divI128 d.coeff g

def denominator (prof : Profile) (d : Dec) : Outcome Int :=
  if d.nfrac = 0 ∨ d.coeff = 0 then .ok 1 else do
    let g ← gcdSpecial prof d.coeff d.nfrac
    let t ← tenPow d.nfrac
    divI128 t g

/-- `impl Hash for Decimal`: the words fed to the `Hasher` are those of the `(i128, i128)` pair -/
def hashFeed (prof : Profile) (d : Dec) : Outcome (List Int) := do
  let (n, dn) ← asIntegerRatio prof d
  pure [n, dn]

end Fpdec.Model
