import random, math
from fractions import Fraction as F
from oracle import rnd, MODES
def floordiv(a,b): return a//b, a%b
def div_rounded_i128(n, d, mode):
    # mirrors i128_div_rounded semantics == rnd(n/d)
    return rnd(F(n, d), mode)
r = random.Random(5)
bad = 0
for i in range(300000):
    mode = r.choice(MODES)
    x = r.choice([r.randint(-10**6, 10**6), r.randint(-2**127+1, 2**127-1), r.randint(-10**20, 10**20)])
    d = r.choice([r.randint(1, 50), r.randint(1, 10**12), r.randint(1, 2**127-1)]) * r.choice([1,-1])
    s = r.randint(1, 17)
    exact = rnd(F(x, d * 10**s), mode)
    # proposed fix: normalise sign of divisor, floor-divide, sticky
    xx, dd = (x, d) if d > 0 else (-x, -d)
    q1, r1 = floordiv(xx, dd)
    if r1 == 0:
        got = div_rounded_i128(q1, 10**s, mode)
    else:
        got = div_rounded_i128(2*q1 + 1, 2 * 10**s, mode)
    if got != exact:
        bad += 1
        if bad < 10: print("D7 fix mismatch", mode, x, d, s, got, exact)
print("D7 fix bad:", bad)
# D9: for shift > 38 (10^shift > 2*|c|): result k = rnd(c / 10^shift) must equal rnd(sign(c)/3)
bad = 0
for i in range(100000):
    mode = r.choice(MODES)
    c = r.choice([r.randint(-2**127+1, 2**127-1), r.randint(-1000, 1000), 0])
    shift = r.randint(39, 60)
    exact = rnd(F(c, 10**shift), mode)
    sg = (c > 0) - (c < 0)
    got = rnd(F(sg, 3), mode)
    if got != exact:
        bad += 1
        if bad < 10: print("D9 mismatch", mode, c, shift, got, exact)
print("D9 fix bad:", bad)
