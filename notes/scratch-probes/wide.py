import random, subprocess, sys
r = random.Random(int(sys.argv[1])); N = int(sys.argv[2])
IMAX = 2**127-1
def big(r):
    k = r.random()
    if k < 0.3: return r.getrandbits(127)
    if k < 0.5: return (1 << r.randint(60,126)) + r.getrandbits(r.randint(1,60))
    if k < 0.7: return IMAX - r.getrandbits(r.randint(1,64))
    return r.getrandbits(r.randint(1,127))
def divisor(r):
    k = r.random()
    if k < 0.2: return r.getrandbits(r.randint(1,64)) or 1
    if k < 0.5:
        # top digit after normalisation = 2^63 exactly, low digit large
        sh = r.randint(0, 62)
        y = ((1 << 63) << 64 | ((1<<64) - 1 - r.getrandbits(r.randint(0,20)))) >> sh
        return min(IMAX, y) or 1
    if k < 0.7:
        sh = r.randint(0, 62)
        y = (((1 << 63) + r.getrandbits(r.randint(0,10))) << 64 | r.getrandbits(64)) >> sh
        return min(IMAX, y) or 1
    return big(r) or 1
cases = []
for i in range(N):
    if r.random() < 0.5:
        x1 = big(r) * r.choice([1,-1]); x2 = big(r) * r.choice([1,-1]); y = divisor(r)
        if r.random() < 0.3:
            # make quotient fit and product maybe exact multiple
            q = r.getrandbits(r.randint(1,127)); 
        cases.append(("w256", x1, x2, y))
    else:
        x = big(r) * r.choice([1,-1]); p = r.randint(0, 38); y = divisor(r)
        if r.random() < 0.4:
            # choose y near x*10^p / q for fitting quotient
            q = r.getrandbits(r.randint(1,126)) or 1
            y = max(1, min(IMAX, abs(x)*10**p // q))
        cases.append(("wsh", x, p, y))
inp = "\n".join(f"heven {c[0]} {c[1]} {c[2]} {c[3]}" for c in cases) + "\n"
out = subprocess.run(["./target/debug/drv"], input=inp, capture_output=True, text=True).stdout.splitlines()
bad = 0; nn = 0; exact_neg = 0
for c, o in zip(cases, out):
    if c[0] == "w256": n = c[1]*c[2]
    else: n = c[1] * 10**c[2]
    y = c[3]
    q, rr = divmod(n, y)
    if o == "none":
        nn += 1
        if abs(q) <= IMAX and not (n < 0 and rr == 0 and -q == IMAX+1):
            # q0 check
            q0 = abs(n)//y
            if q0 <= IMAX:
                bad += 1; print("spurious none", c)
        continue
    e = f"{q} {rr}"
    if o != e:
        if n < 0 and rr == 0: exact_neg += 1
        else:
            bad += 1
            if bad < 10: print("MISMATCH", c, o, e)
print("cases", len(cases), "none", nn, "bad", bad, "neg-exact (known)", exact_neg)
