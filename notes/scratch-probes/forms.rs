// compare int-operand forms with Decimal::from(i) forms
use fpdec::*;
use std::io::{BufRead, Write};
use std::panic::{catch_unwind, AssertUnwindSafe};

fn sd(d: Decimal) -> String { format!("ok {} {}", d.coefficient(), d.n_frac_digits()) }
fn od(x: Option<Decimal>) -> String { match x { Some(d) => sd(d), None => "none".into() } }
fn guard<F: FnOnce() -> String>(f: F) -> String {
    match catch_unwind(AssertUnwindSafe(f)) { Ok(s) => s, Err(_) => "panic".into() }
}
macro_rules! forms {
    ($t:ty, $op:expr, $d:expr, $i:expr, $pos:expr, $n:expr) => {{
        let d: Decimal = $d; let i: $t = $i; let di = Decimal::from(i); let n: u8 = $n;
        let (a, b): (String, String) = match ($op, $pos) {
            ("add", "r") => (guard(|| sd(d + i)), guard(|| sd(d + di))),
            ("add", "l") => (guard(|| sd(i + d)), guard(|| sd(di + d))),
            ("sub", "r") => (guard(|| sd(d - i)), guard(|| sd(d - di))),
            ("sub", "l") => (guard(|| sd(i - d)), guard(|| sd(di - d))),
            ("mul", "r") => (guard(|| sd(d * i)), guard(|| sd(d * di))),
            ("mul", "l") => (guard(|| sd(i * d)), guard(|| sd(di * d))),
            ("div", "r") => (guard(|| sd(d / i)), guard(|| sd(d / di))),
            ("div", "l") => (guard(|| sd(i / d)), guard(|| sd(di / d))),
            ("rem", "r") => (guard(|| sd(d % i)), guard(|| sd(d % di))),
            ("rem", "l") => (guard(|| sd(i % d)), guard(|| sd(di % d))),
            ("cadd", "r") => (guard(|| od(d.checked_add(i))), guard(|| od(d.checked_add(di)))),
            ("cadd", "l") => (guard(|| od(CheckedAdd::checked_add(i, d))), guard(|| od(di.checked_add(d)))),
            ("csub", "r") => (guard(|| od(d.checked_sub(i))), guard(|| od(d.checked_sub(di)))),
            ("csub", "l") => (guard(|| od(CheckedSub::checked_sub(i, d))), guard(|| od(di.checked_sub(d)))),
            ("cmul", "r") => (guard(|| od(d.checked_mul(i))), guard(|| od(d.checked_mul(di)))),
            ("cmul", "l") => (guard(|| od(CheckedMul::checked_mul(i, d))), guard(|| od(di.checked_mul(d)))),
            ("cdiv", "r") => (guard(|| od(d.checked_div(i))), guard(|| od(d.checked_div(di)))),
            ("cdiv", "l") => (guard(|| od(CheckedDiv::checked_div(i, d))), guard(|| od(di.checked_div(d)))),
            ("crem", "r") => (guard(|| od(d.checked_rem(i))), guard(|| od(d.checked_rem(di)))),
            ("crem", "l") => (guard(|| od(CheckedRem::checked_rem(i, d))), guard(|| od(di.checked_rem(d)))),
            ("divr", "r") => (guard(|| sd(d.div_rounded(i, n))), guard(|| sd(d.div_rounded(di, n)))),
            ("divr", "l") => (guard(|| sd(i.div_rounded(d, n))), guard(|| sd(di.div_rounded(d, n)))),
            ("quant", "r") => (guard(|| sd(d.quantize(i))), guard(|| sd(d.quantize(di)))),
            ("quant", "l") => (guard(|| sd(i.quantize(d))), guard(|| sd(di.quantize(d)))),
            ("cmp", "r") => (guard(|| format!("{:?} {}", d.partial_cmp(&i), d == i)), guard(|| format!("{:?} {}", d.partial_cmp(&di), d == di))),
            ("cmp", "l") => (guard(|| format!("{:?} {}", i.partial_cmp(&d), i == d)), guard(|| format!("{:?} {}", di.partial_cmp(&d), di == d))),
            _ => ("bad".into(), "bad".into()),
        };
        format!("{} | {}", a, b)
    }};
}
fn main() {
    std::panic::set_hook(Box::new(|_| {}));
    let stdin = std::io::stdin();
    let out = std::io::stdout();
    let mut out = std::io::BufWriter::new(out.lock());
    for line in stdin.lock().lines() {
        let line = line.unwrap();
        let t: Vec<&str> = line.split(' ').collect();
        // op c p int type pos n
        let d = Decimal::new_raw(t[1].parse().unwrap(), t[2].parse().unwrap());
        let n: u8 = t[6].parse().unwrap();
        let r = match t[4] {
            "u8" => forms!(u8, t[0], d, t[3].parse().unwrap(), t[5], n),
            "i8" => forms!(i8, t[0], d, t[3].parse().unwrap(), t[5], n),
            "u16" => forms!(u16, t[0], d, t[3].parse().unwrap(), t[5], n),
            "i16" => forms!(i16, t[0], d, t[3].parse().unwrap(), t[5], n),
            "u32" => forms!(u32, t[0], d, t[3].parse().unwrap(), t[5], n),
            "i32" => forms!(i32, t[0], d, t[3].parse().unwrap(), t[5], n),
            "u64" => forms!(u64, t[0], d, t[3].parse().unwrap(), t[5], n),
            "i64" => forms!(i64, t[0], d, t[3].parse().unwrap(), t[5], n),
            "i128" => forms!(i128, t[0], d, t[3].parse().unwrap(), t[5], n),
            _ => "bad".into(),
        };
        writeln!(out, "{}", r).unwrap();
    }
}
