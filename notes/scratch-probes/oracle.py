import random, subprocess, sys, struct
from fractions import Fraction as F
import math
MODES = ["05up","ceil","down","floor","hdown","heven","hup","up"]
IMAX = 2**127-1; IMIN = -2**127
def inr(c): return IMIN <= c <= IMAX

def rnd(fr, mode):
    """round Fraction to integer under mode"""
    fl = math.floor(fr)
    rem = fr - fl
    if rem == 0: return fl
    tz = fl if fr > 0 else fl + 1  # toward zero
    az = fl + 1 if fr > 0 else fl  # away from zero
    if mode == "ceil": return fl + 1
    if mode == "floor": return fl
    if mode == "down": return tz
    if mode == "up": return az
    if mode == "05up": return az if tz % 5 == 0 else tz
    if rem > F(1,2): return fl + 1
    if rem < F(1,2): return fl
    if mode == "hup": return az
    if mode == "hdown": return tz
    if mode == "heven": return fl if fl % 2 == 0 else fl + 1

def norm(c, p):
    if c == 0: return (0, 0)
    while p > 0 and c % 10 == 0: c //= 10; p -= 1
    return (c, p)

def val(c, p): return F(c, 10**p)

def gen_coeff(r):
    k = r.random()
    if k < 0.1: return r.choice([0, 1, -1, 2, -2, 5, 10, -10])
    if k < 0.3:
        e = r.randint(0, 38); c = 10**e * r.choice([1, 1, 1, 2, 5, 3, 17]) * r.choice([1, -1])
        c += r.choice([0,0,0,1,-1])
        return max(-IMAX, min(IMAX, c))
    if k < 0.45:
        c = r.choice([IMAX, IMAX-1, IMAX//10, IMAX//10+1, 2**126, 2**64, 2**64-1, 2**63, 2**96, 10**38, 10**38-1, IMAX//2, IMAX//2+1, IMAX//5, IMAX//100])
        c -= r.choice([0, 0, 1, 2, 7])
        return c * r.choice([1, -1])
    bits = r.randint(1, 127)
    c = r.getrandbits(bits)
    if r.random() < 0.3:
        # trailing zeros
        c = c - c % 10**r.randint(1, 12)
    return max(-IMAX, min(IMAX, c * r.choice([1, -1])))

def gen_dec(r):
    c = gen_coeff(r)
    p = r.choice([0, 0, 1, 2, 3, 5, 9, 10, 17, 18, r.randint(0, 18)])
    if r.random() < 0.1 and c != 0:
        # value one
        return (10**p, p)
    return (c, p)

def exp_add(x, y, sub=False):
    (a,p),(b,q) = x,y
    m = max(p,q)
    a2 = a*10**(m-p); b2 = b*10**(m-q)
    res = a2 - b2 if sub else a2 + b2
    if not (inr(a2) and inr(b2) and inr(res)): return None
    return (res, m)

def exp_mul(x, y, mode):
    (a,p),(b,q) = x,y
    if a == 0 or b == 0: return (0,0)
    if b == 10**q: return x
    if a == 10**p: return y
    if p+q <= 18:
        c = a*b
        return (c, p+q) if inr(c) else None
    c = rnd(F(a*b, 10**(p+q-18)), mode)
    return (c, 18) if inr(c) else None

def exp_cmul(x, y):
    (a,p),(b,q) = x,y
    if a == 0 or b == 0: return (0,0)
    if b == 10**q: return x
    if a == 10**p: return y
    if p+q > 18: return None
    c = a*b
    return (c, p+q) if inr(c) else None

def exp_mulr(x, y, n, mode):
    (a,p),(b,q) = x,y
    if n > 18: return "panic"
    if a == 0 or b == 0: return (0,0)
    if n >= p+q:
        c = a*b
        return (c, p+q) if inr(c) else None
    c = rnd(F(a*b, 10**(p+q-n)), mode)
    return (c, n) if inr(c) else None

def exp_divr(x, y, n, mode):
    (a,p),(b,q) = x,y
    if n > 18: return "panic"
    if b == 0: return "panic"
    if a == 0: return (0,0)
    c = rnd(val(a,p)/val(b,q)*10**n, mode)
    return (c, n) if inr(c) else None

def exp_div(x, y, mode):
    (a,p),(b,q) = x,y
    if b == 0: return "zero"
    if a == 0: return (0,0)
    if b == 10**q: return x
    c = rnd(val(a,p)/val(b,q)*10**18, mode)
    if not inr(c): return None
    return norm(c, 18)

def exp_rem(x, y):
    (a,p),(b,q) = x,y
    if b == 0: return "zero"
    if a == 0: return (0,0)
    m = max(p,q)
    a2 = a*10**(m-p); b2 = b*10**(m-q)
    r = abs(a2) % abs(b2)
    if a2 < 0: r = -r
    if b == 10**q:
        # fract
        if p == 0: return (0,0)
        rr = abs(a) % 10**p
        return (-rr if a < 0 else rr, p)
    if p < q and not inr(a2): return ("maybe", (r, m))
    return (r, m)

def exp_round(x, n, mode):
    (a,p) = x
    if n >= p: return x
    c = rnd(F(a, 10**(p-n)), mode)
    if n >= 0:
        return (c, n)
    c2 = c * 10**(-n)
    return (c2, 0) if inr(c2) else None

def fmtres(e):
    if e is None: return "ovf"
    if isinstance(e, str): return e
    return "ok %d %d" % e

def classify(out):
    if out.startswith("panic"): return "ovf" if ("overflow" in out or "Internal representation" in out) else out
    if out == "none": return "ovf"
    return out

def main():
    seed = int(sys.argv[1]) if len(sys.argv) > 1 else 1
    N = int(sys.argv[2]) if len(sys.argv) > 2 else 20000
    r = random.Random(seed)
    cases = []
    for i in range(N):
        mode = r.choice(MODES)
        x = gen_dec(r); y = gen_dec(r)
        op = r.choice(["add","sub","cadd","csub","mul","cmul","div","cdiv","rem","crem","mulr","divr","round","cround","quant","cmp"])
        n = r.randint(0,18)
        if op in ("round","cround"):
            n = r.choice([r.randint(-128,127), r.randint(-40, 19), r.randint(-5,18)])
            line = f"{mode} {op} {x[0]} {x[1]} {n}"
        elif op in ("mulr","divr"):
            line = f"{mode} {op} {x[0]} {x[1]} {y[0]} {y[1]} {n}"
        else:
            line = f"{mode} {op} {x[0]} {x[1]} {y[0]} {y[1]}"
        cases.append((mode, op, x, y, n, line))
    inp = "\n".join(c[5] for c in cases) + "\n"
    out = subprocess.run(["./target/debug/drv"], input=inp, capture_output=True, text=True).stdout.splitlines()
    assert len(out) == len(cases), (len(out), len(cases))
    bad = {}
    for (mode, op, x, y, n, line), o in zip(cases, out):
        got = classify(o)
        if op in ("add","cadd"): e = fmtres(exp_add(x,y))
        elif op in ("sub","csub"): e = fmtres(exp_add(x,y,True))
        elif op == "mul": e = fmtres(exp_mul(x,y,mode))
        elif op == "cmul": e = fmtres(exp_cmul(x,y))
        elif op in ("div","cdiv"):
            e = exp_div(x,y,mode)
            if e == "zero": e = "panic Division by Zero." if op == "div" else "ovf"
            else: e = fmtres(e)
        elif op in ("rem","crem"):
            e = exp_rem(x,y)
            if e == "zero": e = "panic Division by Zero." if op == "rem" else "ovf"
            elif e[0] == "maybe":
                e = got if got == "ovf" else fmtres(e[1])
            else: e = fmtres(e)
        elif op == "mulr": e = fmtres(exp_mulr(x,y,n,mode))
        elif op == "divr":
            e = exp_divr(x,y,n,mode)
            if e == "panic": e = got if got.startswith("panic") else "panic"
            else: e = fmtres(e)
        elif op in ("round","cround"): e = fmtres(exp_round(x,n,mode))
        elif op == "quant":
            (a,p),(b,q) = x,y
            if b == 0: e = "panic Division by Zero."
            elif a == 0:
                e = "ok 0 0"
            else:
                k = rnd(val(a,p)/val(b,q), mode)
                # result = k * y  (Decimal mul semantics)
                if not inr(k): e = "ovf"
                else: e = fmtres(exp_mul((k,0), y, mode))
        elif op == "cmp":
            vx, vy = val(*x), val(*y)
            o_ = "Less" if vx < vy else "Greater" if vx > vy else "Equal"
            e = f"{o_} {str(vx==vy).lower()} {str(vx<vy).lower()}"
        if got != e:
            bad.setdefault(op, []).append((line, got, e))
    for op, l in bad.items():
        print(f"== {op}: {len(l)} mismatches")
        for t in l[:6]: print("   ", t)
    print("done", N)
main()
