use fpdec::*;
use std::io::{BufRead, Write};
use std::panic::{catch_unwind, AssertUnwindSafe};
use std::str::FromStr;

fn mode(s: &str) -> RoundingMode {
    match s {
        "05up" => RoundingMode::Round05Up,
        "ceil" => RoundingMode::RoundCeiling,
        "down" => RoundingMode::RoundDown,
        "floor" => RoundingMode::RoundFloor,
        "hdown" => RoundingMode::RoundHalfDown,
        "heven" => RoundingMode::RoundHalfEven,
        "hup" => RoundingMode::RoundHalfUp,
        "up" => RoundingMode::RoundUp,
        _ => panic!("mode"),
    }
}
fn d(c: &str, p: &str) -> Decimal {
    Decimal::new_raw(c.parse::<i128>().unwrap(), p.parse::<u8>().unwrap())
}
fn od(x: Option<Decimal>) -> String {
    match x { Some(d) => format!("ok {} {}", d.coefficient(), d.n_frac_digits()), None => "none".into() }
}
fn sd(d: Decimal) -> String { format!("ok {} {}", d.coefficient(), d.n_frac_digits()) }

fn run(t: &[&str]) -> String {
    match t[0] {
        "add" => sd(d(t[1], t[2]) + d(t[3], t[4])),
        "sub" => sd(d(t[1], t[2]) - d(t[3], t[4])),
        "cadd" => od(d(t[1], t[2]).checked_add(d(t[3], t[4]))),
        "csub" => od(d(t[1], t[2]).checked_sub(d(t[3], t[4]))),
        "mul" => sd(d(t[1], t[2]) * d(t[3], t[4])),
        "cmul" => od(d(t[1], t[2]).checked_mul(d(t[3], t[4]))),
        "div" => sd(d(t[1], t[2]) / d(t[3], t[4])),
        "cdiv" => od(d(t[1], t[2]).checked_div(d(t[3], t[4]))),
        "rem" => sd(d(t[1], t[2]) % d(t[3], t[4])),
        "crem" => od(d(t[1], t[2]).checked_rem(d(t[3], t[4]))),
        "mulr" => sd(d(t[1], t[2]).mul_rounded(d(t[3], t[4]), t[5].parse().unwrap())),
        "divr" => sd(d(t[1], t[2]).div_rounded(d(t[3], t[4]), t[5].parse().unwrap())),
        "divri" => sd(d(t[1], t[2]).div_rounded(t[3].parse::<i128>().unwrap(), t[5].parse().unwrap())),
        "idivr" => sd(t[1].parse::<i128>().unwrap().div_rounded(d(t[3], t[4]), t[5].parse().unwrap())),
        "quant" => sd(d(t[1], t[2]).quantize(d(t[3], t[4]))),
        "round" => sd(d(t[1], t[2]).round(t[3].parse().unwrap())),
        "cround" => od(d(t[1], t[2]).checked_round(t[3].parse().unwrap())),
        "cmp" => format!("{:?} {} {}", d(t[1], t[2]).cmp(&d(t[3], t[4])), d(t[1], t[2]) == d(t[3], t[4]), d(t[1], t[2]) < d(t[3], t[4])),
        "cmpi" => { let i = t[3].parse::<i128>().unwrap(); let x = d(t[1], t[2]); format!("{:?} {} {:?} {}", x.partial_cmp(&i), x == i, i.partial_cmp(&x), i == x) }
        "cmpu" => { let i = t[3].parse::<u64>().unwrap(); let x = d(t[1], t[2]); format!("{:?} {} {:?} {}", x.partial_cmp(&i), x == i, i.partial_cmp(&x), i == x) }
        "f64" => format!("{}", f64::from(d(t[1], t[2])).to_bits()),
        "f32" => format!("{}", f32::from(d(t[1], t[2])).to_bits()),
        "fromf64" => match Decimal::try_from(f64::from_bits(t[1].parse().unwrap())) { Ok(x) => sd(x), Err(e) => format!("err {:?}", e) },
        "fromf32" => match Decimal::try_from(f32::from_bits(t[1].parse().unwrap())) { Ok(x) => sd(x), Err(e) => format!("err {:?}", e) },
        "ratio" => { let (n, m) = d(t[1], t[2]).as_integer_ratio(); format!("{} {}", n, m) }
        "magn" => format!("{}", d(t[1], t[2]).magnitude()),
        "str" => { let x = d(t[1], t[2]); let s = x.to_string(); let s2 = String::from(x); let dbg = format!("{:?}", x); format!("{} {} {}", s, s2, dbg) }
        "parse" => match Decimal::from_str(t.get(1).copied().unwrap_or("")) { Ok(x) => sd(x), Err(e) => format!("err {:?}", e) },
        "unop" => { let x = d(t[1], t[2]); format!("{} | {} | {} | {}", sd(x.floor()), sd(x.ceil()), sd(x.trunc()), sd(x.fract())) }
        "toint" => { let x = d(t[1], t[2]); format!("{:?} {:?} {:?} {:?} {:?} {:?}", i128::try_from(x), u128::try_from(x), i64::try_from(x), u64::try_from(x), i8::try_from(x), u8::try_from(x)) }
        "fmt" => {
            let x = d(t[1], t[2]);
            // t[3] = spec id
            let w: usize = t[4].parse().unwrap(); let p: usize = t[5].parse().unwrap();
            match t[3] {
                "wp" => format!("[{:w$.p$}]", x, w = w, p = p),
                "p" => format!("[{:.p$}]", x, p = p),
                "w" => format!("[{:w$}]", x, w = w),
                "lwp" => format!("[{:<w$.p$}]", x, w = w, p = p),
                "cwp" => format!("[{:^w$.p$}]", x, w = w, p = p),
                "rwp" => format!("[{:>w$.p$}]", x, w = w, p = p),
                "0wp" => format!("[{:0w$.p$}]", x, w = w, p = p),
                "+wp" => format!("[{:+w$.p$}]", x, w = w, p = p),
                "+0wp" => format!("[{:+0w$.p$}]", x, w = w, p = p),
                "fwp" => format!("[{:*<w$.p$}]", x, w = w, p = p),
                "fcw" => format!("[{:#^w$}]", x, w = w),
                _ => panic!("spec"),
            }
        }
        "w256" => match fpdec_core::i256_div_mod_floor(t[1].parse().unwrap(), t[2].parse().unwrap(), t[3].parse().unwrap()) { Some((q, r)) => format!("{} {}", q, r), None => "none".into() },
        "wsh" => match fpdec_core::i128_shifted_div_mod_floor(t[1].parse().unwrap(), t[2].parse().unwrap(), t[3].parse().unwrap()) { Some((q, r)) => format!("{} {}", q, r), None => "none".into() },
        _ => "bad-op".into(),
    }
}

fn main() {
    std::panic::set_hook(Box::new(|_| {}));
    let stdin = std::io::stdin();
    let out = std::io::stdout();
    let mut out = std::io::BufWriter::new(out.lock());
    for line in stdin.lock().lines() {
        let line = line.unwrap();
        let mut t: Vec<&str> = line.split(' ').collect();
        let m = t.remove(0);
        RoundingMode::set_default(mode(m));
        let r = catch_unwind(AssertUnwindSafe(|| run(&t)));
        match r {
            Ok(s) => writeln!(out, "{}", s).unwrap(),
            Err(e) => {
                let msg = if let Some(s) = e.downcast_ref::<String>() { s.clone() } else if let Some(s) = e.downcast_ref::<&str>() { s.to_string() } else { "?".into() };
                writeln!(out, "panic {}", msg).unwrap()
            }
        }
    }
}
