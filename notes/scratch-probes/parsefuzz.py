import random, subprocess, sys, re
IMAX = 2**127-1
LIT = re.compile(rb'^([+-]?)(?:(\d+)(?:\.(\d*))?|\.(\d+))(?:[eE]([+-]?)(\d+))?$')
def spec(b):
    if b == b"": return "err Empty"
    m = LIT.match(b)
    if not m or b.endswith(b"\n"): return "err"
    sign, i1, f1, f2, es, ed = m.groups()
    ip = i1 or b""; fp = (f1 if i1 is not None else f2) or b""
    raw = int(ip + fp) if (ip + fp) else 0
    e = int(ed) * (-1 if es == b"-" else 1) if ed is not None else 0
    e -= len(fp)
    if e >= 0:
        c = raw * 10**e if e < 200 else (0 if raw == 0 else 10**200); nf = 0
    else:
        c = raw; nf = -e
    if nf > 18 or c > IMAX: return "err"
    if sign == b"-": c = -c
    return f"ok {c} {nf}"
def gen(r):
    k = r.random()
    def digits(n, lead0=False):
        if n == 0: return ""
        s = "".join(r.choice("0123456789") for _ in range(n))
        if not lead0 and s[0] == "0": s = r.choice("123456789") + s[1:]
        return s
    if k < 0.15:
        # around big thresholds
        base = r.choice([10**38, 2**127, 2**128, 2**128 + 10**38, 2*2**128, 2*2**128+10**38, 10**39, 2**127-1, 10**38-1, 3*2**128, 2**256, 2**256+10**38])
        v = base + r.choice([0, 1, -1, r.randint(-10**6, 10**6), r.randint(0, 2**126)])
        s = str(abs(v))
        if r.random() < 0.5:
            pos = r.randint(0, len(s)); s = s[:pos] + "." + s[pos:]
            if r.random() < 0.5: s += "e" + str(len(s) - pos - 1 + r.randint(-3, 3))
        return r.choice(["", "+", "-"]) + s
    if k < 0.75:
        s = r.choice(["", "", "+", "-"])
        form = r.random()
        if form < 0.6:
            s += r.choice(["", "0", "00", "000"]) + digits(r.choice([0, 1, 2, 5, 8, 9, 16, 17, 20, 38, 39, 40]), r.random() < 0.3)
            if r.random() < 0.6: s += "." + digits(r.choice([0, 0, 1, 2, 8, 9, 17, 18, 19, 20, 40]), True)
        else:
            s += "." + digits(r.choice([0, 1, 3, 8, 18, 19, 30, 41]), True)
        if r.random() < 0.5:
            s += r.choice("eE") + r.choice(["", "", "+", "-"]) + r.choice([digits(r.choice([0, 1, 1, 2, 2, 3, 4]), True), str(r.randint(0, 45))])
        if r.random() < 0.15:
            # mutate
            pos = r.randint(0, len(s)); ch = r.choice([" ", "x", ".", "e", "+", "-", "_", "é", "\x00", "9", "0"])
            m = r.random()
            if m < 0.4: s = s[:pos] + ch + s[pos:]
            elif m < 0.7 and s: s = s[:pos] + s[pos+1:]
            elif s: s = s[:pos] + ch + s[pos+1:]
        return s
    if k < 0.85:
        return "".join(chr(r.randint(1, 255)) if r.random() < 0.3 else r.choice("0123456789.eE+-") for _ in range(r.randint(0, 12)))
    z = r.choice(["0", "00", "0.", "0.0", ".0", "0e0", "0e5", "0.e1", "0.0e-3", "-0", "+0.", "0e99", "0e-99", "0.000000000000000000", "0.0000000000000000000"])
    return z
def main():
    seed = int(sys.argv[1]); N = int(sys.argv[2]); r = random.Random(seed)
    strs = []
    for _ in range(N):
        s = gen(r)
        if "\n" in s or "\r" in s or " " in s and False: continue
        if "\n" in s: continue
        strs.append(s)
    strs = [s for s in strs if "\n" not in s and " " not in s]
    inp = "".join(f"heven parse {s}\n" for s in strs)
    out = subprocess.run(["./target/debug/drv"], input=inp.encode("utf-8"), capture_output=True).stdout.decode().splitlines()
    assert len(out) == len(strs), (len(out), len(strs))
    cats = {}
    for s, o in zip(strs, out):
        e = spec(s.encode("utf-8"))
        g = o if o.startswith("ok") else ("err Empty" if o == "err Empty" else "err")
        if g != e:
            cats.setdefault((g[:3], e[:3]), []).append((s, o, e))
    for k, v in cats.items():
        print(k, len(v))
        for t in v[:12]: print("    ", t)
    print("done", len(strs))
main()
