import random, subprocess, sys
src = open('/tmp/fpx/oracle.py').read().replace("\nmain()\n", "\n")
ns = {}; exec(compile(src, 'oracle', 'exec'), ns)
gen_dec, gen_coeff = ns['gen_dec'], ns['gen_coeff']
r = random.Random(int(sys.argv[1])); N = int(sys.argv[2])
T = {"u8": (0, 255), "i8": (-128, 127), "u16": (0, 65535), "i16": (-32768, 32767), "u32": (0, 2**32-1), "i32": (-2**31, 2**31-1), "u64": (0, 2**64-1), "i64": (-2**63, 2**63-1), "i128": (-2**127+1, 2**127-1)}
ops = ["add","sub","mul","div","rem","cadd","csub","cmul","cdiv","crem","divr","quant","cmp"]
lines = []
for _ in range(N):
    d = gen_dec(r); ty = r.choice(list(T)); lo, hi = T[ty]
    k = r.random()
    if k < 0.3: i = r.choice([lo, hi, 0, 1, min(hi, 2), max(lo, -1), min(hi, 10), min(hi, 5)])
    elif k < 0.6: i = max(lo, min(hi, d[0] // 10**d[1] + r.choice([-1, 0, 1])))
    else: i = max(lo, min(hi, gen_coeff(r)))
    lines.append(f"{r.choice(ops)} {d[0]} {d[1]} {i} {ty} {r.choice('lr')} {r.randint(0, 18)}")
out = subprocess.run(["/tmp/fpx/target/debug/forms"], input="\n".join(lines) + "\n", capture_output=True, text=True).stdout.splitlines()
from fractions import Fraction as F
def v(s):
    t = s.split()
    if t[0] == "ok": return ("ok", F(int(t[1]), 10**int(t[2])), int(t[2]))
    return (s,)
cats = {}
for l, o in zip(lines, out):
    a, b = o.split(" | ")
    op = l.split()[0]
    va, vb = v(a), v(b)
    same = (va[:2] == vb[:2]) and (op not in ("add","sub","cadd","csub") or va == vb)
    if not same: cats.setdefault(op + "/" + l.split()[5], []).append((l, a, b))
for k, x in sorted(cats.items()):
    print(k, len(x))
    for t in x[:4]: print("    ", t)
print("done", len(lines))
