import random, subprocess, sys
from fractions import Fraction as F
src = open('/tmp/fpx/oracle2.py').read().split("def main():")[0]
ns = {}; exec(compile(src.replace("from oracle import", "from oracle_nomain import"), 'o2', 'exec'), ns) if False else None
src1 = open('/tmp/fpx/oracle.py').read().replace("\nmain()\n", "\n")
ns = {}; exec(compile(src1, 'oracle', 'exec'), ns)
rnd = ns['rnd']
def rne_bits(v, fbits, ebias, total):
    sign = v < 0; v = abs(v)
    e = v.numerator.bit_length() - v.denominator.bit_length()
    if F(2)**e > v: e -= 1
    scaled = v / F(2)**(e - fbits)
    m = rnd(scaled, "heven")
    bits = m + ((e + ebias - 1) << fbits)
    if sign: bits |= 1 << (total-1)
    return bits
r = random.Random(int(sys.argv[1])); N = int(sys.argv[2])
IMAX = 2**127-1
cases = []
for _ in range(N):
    fb = r.choice([52, 23])
    M = (1 << fb) | r.getrandbits(fb)         # significand
    if r.random() < 0.3: M = r.choice([(1<<fb), (1<<(fb+1))-1, (1<<fb)+1])
    e = r.randint(-18 - fb, 70)               # value = (2M+1) * 2^(e-1): midpoint between M*2^e and (M+1)*2^e
    mid = F(2*M+1) * F(2)**(e-1)
    # representable as decimal with p <= 18 digits?
    # denominator power of two 2^k -> needs k <= 18 digits
    den = mid.denominator
    k = den.bit_length() - 1
    if k > 18: continue
    p = r.randint(k, 18)
    c = mid * 10**p
    assert c.denominator == 1
    c = c.numerator
    if c > IMAX: continue
    for dc in (0, 1, -1):
        cc = (c + dc) * r.choice([1, -1])
        if abs(cc) > IMAX or cc == 0: continue
        cases.append((cc, p, fb))
inp = "\n".join(f"heven {'f64' if fb == 52 else 'f32'} {c} {p}" for c, p, fb in cases) + "\n"
out = subprocess.run(["/tmp/fpx/target/debug/drv"], input=inp, capture_output=True, text=True).stdout.splitlines()
bad = 0
for (c, p, fb), o in zip(cases, out):
    e = rne_bits(F(c, 10**p), fb, 1023 if fb == 52 else 127, 64 if fb == 52 else 32)
    if str(e) != o:
        bad += 1
        if bad < 10: print("MISMATCH", c, p, fb, o, e)
print("cases", len(cases), "bad", bad)
