import random, subprocess, sys, struct, math
from fractions import Fraction as F
sys.path.insert(0, '.')
from oracle import gen_dec, gen_coeff, rnd, norm, val, MODES, IMAX, IMIN, inr

def rne_bits(v, fbits, ebias, total):
    """v: Fraction != 0 -> bits of nearest float (normal range assumed)"""
    sign = v < 0; v = abs(v)
    e = v.numerator.bit_length() - v.denominator.bit_length()
    if F(2)**e > v: e -= 1
    assert F(2)**e <= v < F(2)**(e+1)
    scaled = v / F(2)**(e - fbits)
    m = rnd(scaled, "heven")
    bits = m + ((e + ebias - 1) << fbits)
    if sign: bits |= 1 << (total-1)
    return bits

def exp_fmt(x, spec, w, p, mode):
    (c, q) = x
    # python formatting emulation
    def body(prec):
        if prec is None: prec = q
        prec = min(prec, 18)
        if prec >= q:
            cc = abs(c) * 10**(prec-q)
        else:
            cc = abs(rnd(F(c, 10**(q-prec)), mode))
        s = str(cc // 10**prec)
        if prec > 0: s += "." + str(cc % 10**prec).rjust(prec, "0")
        return s
    neg = c < 0
    def pad(s, width, align, fill, plus, zero):
        sign = "-" if neg else ("+" if plus else "")
        if width is None or len(sign)+len(s) >= width: return sign+s
        n = width - len(sign) - len(s)
        if zero: return sign + "0"*n + s
        t = sign+s
        if align == "<": return t + fill*n
        if align == "^": return fill*(n//2) + t + fill*(n-n//2)
        return fill*n + t
    if spec == "wp": return pad(body(p), w, ">", " ", False, False)
    if spec == "p": return pad(body(p), None, ">", " ", False, False)
    if spec == "w": return pad(body(None), w, ">", " ", False, False)
    if spec == "lwp": return pad(body(p), w, "<", " ", False, False)
    if spec == "cwp": return pad(body(p), w, "^", " ", False, False)
    if spec == "rwp": return pad(body(p), w, ">", " ", False, False)
    if spec == "0wp": return pad(body(p), w, ">", " ", False, True)
    if spec == "+wp": return pad(body(p), w, ">", " ", True, False)
    if spec == "+0wp": return pad(body(p), w, ">", " ", True, True)
    if spec == "fwp": return pad(body(p), w, "<", "*", False, False)
    if spec == "fcw": return pad(body(None), w, "^", "#", False, False)

def main():
    seed = int(sys.argv[1]) if len(sys.argv) > 1 else 1
    N = int(sys.argv[2]) if len(sys.argv) > 2 else 20000
    r = random.Random(seed)
    cases = []
    for i in range(N):
        mode = r.choice(MODES)
        x = gen_dec(r)
        op = r.choice(["cmpi","cmpu","f64","f32","fromf64","fromf32","ratio","magn","str","unop","toint","fmt"])
        extra = None
        if op == "cmpi":
            k = r.random()
            if k < 0.3: i_ = x[0] // 10**x[1] + r.choice([-1,0,0,1])
            elif k < 0.6: i_ = gen_coeff(r)
            else: i_ = r.randint(-1000, 1000)
            extra = i_; line = f"{mode} cmpi {x[0]} {x[1]} {i_}"
        elif op == "cmpu":
            k = r.random()
            if k < 0.4: i_ = max(0, min(2**64-1, x[0] // 10**x[1] + r.choice([-1,0,0,1])))
            elif k < 0.7: i_ = r.getrandbits(r.randint(1,64))
            else: i_ = r.choice([0, 1, 2**64-1, 2**63])
            extra = i_; line = f"{mode} cmpu {x[0]} {x[1]} {i_}"
        elif op in ("fromf64", "fromf32"):
            k = r.random()
            if op == "fromf64":
                if k < 0.3: b = r.getrandbits(64)
                elif k < 0.7:
                    # dyadic with 19th digit 5: multiples of 2^-19.. and moderately sized
                    e = r.randint(1, 70); m = r.getrandbits(r.randint(1,53)) | 1
                    f = math.ldexp(m, -e) * r.choice([1,-1]); b = struct.unpack("<Q", struct.pack("<d", f))[0]
                else:
                    f = r.choice([0.0, -0.0, 1.0, 0.1, 2.0**127, -2.0**127, 2.0**126*1.5, 1.7e38, 1e-18, 0.5e-18, 1.5e-18, 2.0**-19, 3*2.0**-19, 5e-324, float("inf"), float("nan"), 2.0**-74, 2.0**-73*1.99])
                    b = struct.unpack("<Q", struct.pack("<d", f))[0]
            else:
                if k < 0.3: b = r.getrandbits(32)
                elif k < 0.7:
                    e = r.randint(1, 70); m = r.getrandbits(r.randint(1,24)) | 1
                    f = math.ldexp(m, -e) * r.choice([1,-1]); b = struct.unpack("<I", struct.pack("<f", f))[0]
                else:
                    f = r.choice([0.0, -0.0, 1.0, 0.1, 2.0**127, -2.0**127, 1.7e38, 1e-18, 2.0**-19, 3*2.0**-19, 1e-45, float("inf"), float("nan")])
                    b = struct.unpack("<I", struct.pack("<f", f))[0]
            extra = b; line = f"{mode} {op} {b}"
        elif op == "fmt":
            spec = r.choice(["wp","p","w","lwp","cwp","rwp","0wp","+wp","+0wp","fwp","fcw"])
            w = r.randint(0, 60); p = r.randint(0, 40)
            extra = (spec, w, p); line = f"{mode} fmt {x[0]} {x[1]} {spec} {w} {p}"
        else:
            if op in ("f64","f32") and r.random() < 0.3:
                # construct near-tie: pick float midpoint and express as decimal if possible
                pass
            line = f"{mode} {op} {x[0]} {x[1]}"
        cases.append((mode, op, x, extra, line))
    inp = "\n".join(c[4] for c in cases) + "\n"
    out = subprocess.run(["./target/debug/drv"], input=inp, capture_output=True, text=True).stdout.splitlines()
    assert len(out) == len(cases), (len(out), len(cases))
    bad = {}
    def O(a, b): return "Some(Less)" if a < b else "Some(Greater)" if a > b else "Some(Equal)"
    for (mode, op, x, extra, line), got in zip(cases, out):
        v = val(*x)
        if op in ("cmpi", "cmpu"):
            e = f"{O(v, extra)} {str(v==extra).lower()} {O(extra, v)} {str(v==extra).lower()}"
        elif op == "f64":
            e = str(rne_bits(v, 52, 1023, 64)) if v != 0 else "0"
        elif op == "f32":
            e = str(rne_bits(v, 23, 127, 32)) if v != 0 else "0"
        elif op in ("fromf64", "fromf32"):
            if op == "fromf64": f = struct.unpack("<d", struct.pack("<Q", extra))[0]
            else: f = struct.unpack("<f", struct.pack("<I", extra))[0]
            if math.isnan(f): e = "err NotANumber"
            elif math.isinf(f): e = "err InfiniteValue"
            else:
                fv = F(f)
                c = rnd(fv * 10**18, "heven")
                (c, p) = norm(c, 18)
                if fv.denominator == 1:
                    e = "ok %d 0" % fv.numerator if inr(fv.numerator) else "err InternalOverflow"
                elif not inr(c): e = "err InternalOverflow"
                else: e = "ok %d %d" % (c, p)
        elif op == "ratio":
            e = f"{v.numerator} {v.denominator}"
        elif op == "magn":
            if x[0] == 0: e = "0"
            else:
                m = len(str(abs(x[0]))) - 1 - x[1]; e = str(m)
        elif op == "str":
            c, p = x
            s = str(abs(c) // 10**p)
            if p > 0: s += "." + str(abs(c) % 10**p).rjust(p, "0")
            if c < 0: s = "-" + s
            e = f"{s} {s} Dec!({s})"
        elif op == "unop":
            c, p = x
            fl = math.floor(v); ce = math.ceil(v); tr = int(v) if v >= 0 else -int(-v)
            tr = abs(c) // 10**p * (1 if c >= 0 else -1)
            fr = abs(c) % 10**p * (1 if c >= 0 else -1)
            e = f"ok {fl} 0 | ok {ce} 0 | ok {tr} 0 | ok {fr} {p if p > 0 else 0}"
        elif op == "toint":
            def conv(lo, hi):
                if v.denominator != 1: return "Err(NotAnIntValue)"
                if lo <= v.numerator <= hi: return f"Ok({v.numerator})"
                return "Err(ValueOutOfRange)"
            e = " ".join([conv(IMIN, IMAX), conv(0, 2**128-1), conv(-2**63, 2**63-1), conv(0, 2**64-1), conv(-128, 127), conv(0, 255)])
        elif op == "fmt":
            e = "[" + exp_fmt(x, extra[0], extra[1], extra[2], mode) + "]"
        if got != e:
            bad.setdefault(op, []).append((line, got, e))
    for op, l in bad.items():
        print(f"== {op}: {len(l)} mismatches")
        for t in l[:6]: print("   ", t)
    print("done", N)
main()
