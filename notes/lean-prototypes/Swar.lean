import Std.Tactic.BVDecide

def contains8 (chunk : BitVec 64) : Bool :=
  let x := chunk - 0x3030303030303030#64
  let y := chunk + 0x4646464646464646#64
  (x ||| y) &&& 0x8080808080808080#64 == 0#64

def isDigitByte (b : BitVec 8) : Bool := 0x30#8 ≤ b && b ≤ 0x39#8

def allDigits (chunk : BitVec 64) : Bool :=
  isDigitByte (chunk.extractLsb' 0 8) && isDigitByte (chunk.extractLsb' 8 8) &&
  isDigitByte (chunk.extractLsb' 16 8) && isDigitByte (chunk.extractLsb' 24 8) &&
  isDigitByte (chunk.extractLsb' 32 8) && isDigitByte (chunk.extractLsb' 40 8) &&
  isDigitByte (chunk.extractLsb' 48 8) && isDigitByte (chunk.extractLsb' 56 8)

theorem contains8_iff (chunk : BitVec 64) : contains8 chunk = allDigits chunk := by
  unfold contains8 allDigits isDigitByte
  bv_decide

def chunkToU64 (c : BitVec 64) : BitVec 64 :=
  let c := c &&& 0x0f0f0f0f0f0f0f0f#64
  let c := (c &&& 0x000f000f000f000f#64) * 10#64 + ((c >>> 8) &&& 0x000f000f000f000f#64)
  let c := (c &&& 0x0000007f0000007f#64) * 100#64 + ((c >>> 16) &&& 0x0000007f0000007f#64)
  (c &&& 0x3fff#64) * 10000#64 + ((c >>> 32) &&& 0x3fff#64)

def dig (c : BitVec 64) (i : Nat) : BitVec 64 := (c.extractLsb' (8*i) 8 - 0x30#8).zeroExtend 64

theorem chunkToU64_val (c : BitVec 64) (h : allDigits c = true) :
    chunkToU64 c = dig c 0 * 10000000#64 + dig c 1 * 1000000#64 + dig c 2 * 100000#64 + dig c 3 * 10000#64
      + dig c 4 * 1000#64 + dig c 5 * 100#64 + dig c 6 * 10#64 + dig c 7 := by
  unfold chunkToU64 dig
  unfold allDigits isDigitByte at h
  bv_decide (config := { timeout := 600 })

#print axioms contains8_iff
#print axioms chunkToU64_val
