import Mathlib.Tactic.Linarith
import Mathlib.Tactic.IntervalCases
import Mathlib.Tactic.Ring

/-- half-even rounding of n/d (d>0) to a natural number -/
def rhe (n d : Nat) : Nat :=
  let fl := n / d
  let r := n % d
  if 2 * r > d then fl + 1 else if 2 * r < d then fl else (if fl % 2 = 0 then fl else fl + 1)

/-- what from_decimal does with a quotient that has 3 extra bits (adj = 0) -/
def roundExtra3 (quot : Nat) (sticky : Bool) : Nat :=
  let rnd := (quot % 8) ||| (if sticky then 1 else 0)
  let signif := quot / 8
  signif + (if rnd > 4 ∨ (rnd = 4 ∧ signif % 2 = 1) then 1 else 0)

/-- 2 extra bits (adj = 1): rnd = (quot & 3) << 1 | sticky -/
def roundExtra2 (quot : Nat) (sticky : Bool) : Nat :=
  let rnd := ((quot % 4) * 2) ||| (if sticky then 1 else 0)
  let signif := quot / 4
  signif + (if rnd > 4 ∨ (rnd = 4 ∧ signif % 2 = 1) then 1 else 0)

theorem roundExtra3_spec (N D : Nat) (hD : 0 < D) :
    roundExtra3 (N / D) (decide (N % D ≠ 0)) = rhe N (D * 8) := by
  have h1 : N / (D * 8) = N / D / 8 := by rw [Nat.div_div_eq_div_mul]
  have h2 : N % (D * 8) = (N / D % 8) * D + N % D := by
    rw [Nat.mod_mul]; ring
  have hr : N % D < D := Nat.mod_lt _ hD
  unfold roundExtra3 rhe
  simp only [h1, h2]
  generalize hq : N / D / 8 = sg
  generalize hrem : N % D = rem at *
  have hl : N / D % 8 < 8 := Nat.mod_lt _ (by decide)
  generalize hlow : N / D % 8 = low at *
  interval_cases low <;> by_cases hz : rem = 0 <;> simp [hz] <;> (repeat' split) <;> omega

theorem roundExtra2_spec (N D : Nat) (hD : 0 < D) :
    roundExtra2 (N / D) (decide (N % D ≠ 0)) = rhe N (D * 4) := by
  have h1 : N / (D * 4) = N / D / 4 := by rw [Nat.div_div_eq_div_mul]
  have h2 : N % (D * 4) = (N / D % 4) * D + N % D := by
    rw [Nat.mod_mul]; ring
  have hr : N % D < D := Nat.mod_lt _ hD
  unfold roundExtra2 rhe
  simp only [h1, h2]
  generalize hq : N / D / 4 = sg
  generalize hrem : N % D = rem at *
  have hl : N / D % 4 < 4 := Nat.mod_lt _ (by decide)
  generalize hlow : N / D % 4 = low at *
  interval_cases low <;> by_cases hz : rem = 0 <;> simp [hz] <;> (repeat' split) <;> omega

#print axioms roundExtra3_spec
