/-! ergonomics prototype: Outcome monad, profile-dependent plain ops, Decimal add -/
structure Profile where
  oc : Bool
  da : Bool

inductive Outcome (α : Type) where
  | ok (a : α)
  | panic (k : Nat)
deriving Repr, DecidableEq

instance : Monad Outcome where
  pure := .ok
  bind x f := match x with | .ok a => f a | .panic k => .panic k

@[simp] theorem Outcome.bind_ok {α β} (a : α) (f : α → Outcome β) : (Outcome.ok a >>= f) = f a := rfl
@[simp] theorem Outcome.bind_panic {α β} (k : Nat) (f : α → Outcome β) : (Outcome.panic k >>= f) = .panic k := rfl
@[simp] theorem Outcome.pure_eq {α} (a : α) : (pure a : Outcome α) = .ok a := rfl

def I128.MIN : Int := -(2^127)
def I128.MAX : Int := 2^127 - 1
def I128.fits (x : Int) : Bool := decide (I128.MIN ≤ x ∧ x ≤ I128.MAX)
def I128.wrap (x : Int) : Int := (x + 2^127) % 2^128 - 2^127

/-- plain arithmetic: panic iff overflow-checks, else wrap -/
def I128.plain (prof : Profile) (x : Int) : Outcome Int :=
  if I128.fits x then .ok x else if prof.oc then .panic 1 else .ok (I128.wrap x)
def I128.checked (x : Int) : Option Int := if I128.fits x then some x else none

def POW10 : List Int := (List.range 39).map (fun n => (10:Int)^n)
def tenPow (n : Nat) : Outcome Int := match POW10[n]? with | some v => .ok v | none => .panic 2

structure Dec where
  coeff : Int
  nfrac : Nat
deriving Repr, DecidableEq

def mulPowTen (prof : Profile) (v : Int) (n : Nat) : Outcome Int := do
  let t ← tenPow n
  I128.plain prof (v * t)

/-- mirrors add_sub.rs impl Add<Decimal> for Decimal -/
def Dec.add (prof : Profile) (x y : Dec) : Outcome Dec :=
  match compare x.nfrac y.nfrac with
  | .eq => do
      let c ← I128.plain prof (x.coeff + y.coeff)
      pure ⟨c, x.nfrac⟩
  | .gt => do
      let b ← mulPowTen prof y.coeff (x.nfrac - y.nfrac)
      let c ← I128.plain prof (x.coeff + b)
      pure ⟨c, x.nfrac⟩
  | .lt => do
      let a ← mulPowTen prof x.coeff (y.nfrac - x.nfrac)
      let c ← I128.plain prof (a + y.coeff)
      pure ⟨c, y.nfrac⟩

def Dom (d : Dec) : Prop := I128.MIN < d.coeff ∧ d.coeff ≤ I128.MAX ∧ d.nfrac ≤ 18

/-- spec -/
def specAdd (x y : Dec) : Option Dec :=
  let m := max x.nfrac y.nfrac
  let a := x.coeff * 10^(m - x.nfrac)
  let b := y.coeff * 10^(m - y.nfrac)
  if I128.fits a && I128.fits b && I128.fits (a + b) then some ⟨a + b, m⟩ else none

theorem tenPow_spec (n : Nat) (h : n ≤ 38) : tenPow n = .ok (10^n) := by
  unfold tenPow
  have : ∀ n, n ≤ 38 → POW10[n]? = some ((10:Int)^n) := by decide
  rw [this n h]

theorem add_spec (x y : Dec) (hx : Dom x) (hy : Dom y) :
    Dec.add ⟨true, true⟩ x y = match specAdd x y with | some d => .ok d | none => .panic 1 := by
  obtain ⟨xc, p⟩ := x
  obtain ⟨yc, q⟩ := y
  simp only [Dom] at hx hy
  unfold Dec.add specAdd
  simp only []
  rcases Nat.lt_trichotomy p q with h | h | h
  · have hc : compare p q = .lt := Nat.compare_eq_lt.mpr h
    have hm : max p q = q := by omega
    simp only [hc, hm, Nat.sub_self, Int.pow_zero, Int.mul_one, mulPowTen, tenPow_spec (q - p) (by omega)]
    simp only [Outcome.bind_ok, bind_pure_comp, I128.plain]
    have hyf : I128.fits yc = true := by simp [I128.fits]; omega
    by_cases h1 : I128.fits (xc * 10 ^ (q - p)) = true
    · by_cases h2 : I128.fits (xc * 10 ^ (q - p) + yc) = true
      · simp [h1, h2, hyf]
      · simp [h1, h2, hyf]
    · simp [h1, hyf]
  · subst h
    have hc : compare p p = .eq := by simp
    simp only [hc, Nat.max_self, Nat.sub_self, Int.pow_zero, Int.mul_one]
    have hxf : I128.fits xc = true := by simp [I128.fits]; omega
    have hyf : I128.fits yc = true := by simp [I128.fits]; omega
    by_cases h2 : I128.fits (xc + yc) = true <;> simp [I128.plain, h2, hxf, hyf]
  · have hc : compare p q = .gt := Nat.compare_eq_gt.mpr h
    have hm : max p q = p := by omega
    simp only [hc, hm, Nat.sub_self, Int.pow_zero, Int.mul_one, mulPowTen, tenPow_spec (p - q) (by omega)]
    simp only [Outcome.bind_ok, bind_pure_comp, I128.plain]
    have hxf : I128.fits xc = true := by simp [I128.fits]; omega
    by_cases h1 : I128.fits (yc * 10 ^ (p - q)) = true
    · by_cases h2 : I128.fits (xc + yc * 10 ^ (p - q)) = true
      · simp [h1, h2, hxf]
      · simp [h1, h2, hxf]
    · simp [h1, hxf]

#print axioms add_spec
