inductive Mode | r05up | ceil | down | floor | hdown | heven | hup | up
deriving DecidableEq, Repr

/-- mirrors fpdec-core/src/rounding.rs round_quot (quot+1 unbounded here) -/
def roundQuot (quot : Int) (rem divisor : Nat) (m : Mode) : Int :=
  if rem = 0 then quot else
  match m with
  | .r05up => if (quot ≥ 0 ∧ quot.tmod 5 = 0) ∨ (quot < 0 ∧ (quot + 1).tmod 5 ≠ 0) then quot + 1 else quot
  | .ceil => quot + 1
  | .down => if quot < 0 then quot + 1 else quot
  | .floor => quot
  | .hdown => if 2 * rem > divisor ∨ (2 * rem = divisor ∧ quot < 0) then quot + 1 else quot
  | .heven => if 2 * rem > divisor ∨ (2 * rem = divisor ∧ quot.tmod 2 ≠ 0) then quot + 1 else quot
  | .hup => if 2 * rem > divisor ∨ (2 * rem = divisor ∧ quot ≥ 0) then quot + 1 else quot
  | .up => if quot ≥ 0 then quot + 1 else quot

/-- independent spec: round n/d (d>0) to an integer -/
def specRound (m : Mode) (n d : Int) : Int :=
  let fl := n / d
  let r := n % d
  if r = 0 then fl else
  let tz := if n ≥ 0 then fl else fl + 1
  let az := if n ≥ 0 then fl + 1 else fl
  match m with
  | .ceil => fl + 1
  | .floor => fl
  | .down => tz
  | .up => az
  | .r05up => if tz % 5 = 0 then az else tz
  | .hup => if 2 * r > d then fl + 1 else if 2 * r < d then fl else az
  | .hdown => if 2 * r > d then fl + 1 else if 2 * r < d then fl else tz
  | .heven => if 2 * r > d then fl + 1 else if 2 * r < d then fl else (if fl % 2 = 0 then fl else fl + 1)

theorem roundQuot_spec (m : Mode) (n d : Int) (hd : 0 < d) :
    roundQuot (n / d) (n % d).toNat d.toNat m = specRound m n d := by
  have h1 := Int.emod_nonneg n (Int.ne_of_gt hd)
  have h2 := Int.emod_lt_of_pos n hd
  have h3 := Int.mul_ediv_add_emod n d
  unfold roundQuot specRound
  simp only []
  by_cases hr : n % d = 0
  · simp [hr]
  · have hr' : (n % d).toNat ≠ 0 := by omega
    simp only [hr, hr', if_false]
    have hn : n ≥ 0 ↔ n / d ≥ 0 := by
      constructor
      · intro h; exact Int.ediv_nonneg h (Int.le_of_lt hd)
      · intro h
        have : d * (n / d) ≥ 0 := Int.mul_nonneg (Int.le_of_lt hd) h
        omega
    have t0 : ∀ (x k : Int), x.tmod k = 0 ↔ x % k = 0 := by
      intro x k
      rw [← Int.dvd_iff_tmod_eq_zero, ← Int.dvd_iff_emod_eq_zero]
    have t5 := t0 (n / d) 5
    have t5' := t0 (n / d + 1) 5
    have t2 := t0 (n / d) 2
    have e1 : ((n % d).toNat : Int) = n % d := Int.toNat_of_nonneg h1
    have e2 : ((d.toNat : Nat) : Int) = d := Int.toNat_of_nonneg (Int.le_of_lt hd)
    have c1 : (2 * (n % d).toNat > d.toNat) ↔ 2 * (n % d) > d := by omega
    have c2 : (2 * (n % d).toNat = d.toNat) ↔ 2 * (n % d) = d := by omega
    cases m <;> simp only [c1, c2, t5, t5', t2, Ne] <;> (repeat' split) <;> omega
