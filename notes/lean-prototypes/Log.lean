def C1 : Nat := 0b01100000000000000000 - 10
def C2 : Nat := 0b10000000000000000000 - 100
def C3 : Nat := 0b11100000000000000000 - 1000
def C4 : Nat := 0b10000000000000000000 - 10000

def lessThan5 (v : Nat) : Nat :=
  (((v + C1) &&& (v + C2)) ^^^ ((v + C3) &&& (v + C4))) >>> 17

def log10Small (v : Nat) : Nat :=
  if v < 10 then 0 else if v < 100 then 1 else if v < 1000 then 2 else if v < 10000 then 3 else 4

theorem lessThan5_table : (List.range 100000).all (fun v => lessThan5 v == log10Small v) = true := by
  decide +kernel

theorem lessThan5_spec (v : Nat) (h : v < 100000) : lessThan5 v = log10Small v := by
  have := lessThan5_table
  rw [List.all_eq_true] at this
  have := this v (List.mem_range.mpr h)
  simpa using this

#print axioms lessThan5_spec
