#!/bin/sh
# Build the framework from files on disk only (offline).  Run once after a fresh restore.
set -e
cd "$(dirname "$0")"
export CARGO_NET_OFFLINE=true
python3 tools/fpextract.py ${FPDEC_REPO:-/repo} lean/Fpdec/Gen/Consts.lean
python3 tools/fpsites.py ${FPDEC_REPO:-/repo} lean/Fpdec/Gen/Sites.lean
python3 tools/fpkernels.py ${FPDEC_REPO:-/repo} lean/Fpdec/Gen
(cd lean && lake build Fpdec fpmodel)
[ -f harness/Cargo.lock ] || cp ${FPDEC_REPO:-/repo}/Cargo.lock harness/Cargo.lock
sed "s|@REPO@|${FPDEC_REPO:-/repo}|g" harness/Cargo.toml.in > harness/Cargo.toml
(cd harness && cargo build --offline && cargo build --offline --release)
(cd harness && cargo build --offline --features serde-as-str && cargo build --offline --features rkyv && cargo build --offline --features num-traits && cargo build --offline)
echo setup done
